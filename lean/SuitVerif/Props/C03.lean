import SuitVerif.Encode
import SuitVerif.CborProofs
import SuitVerif.RoundTrip
import SuitVerif.ReadsBack
import SuitVerif.ReadsKv
import SuitVerif.Props.C05
import SuitVerif.Generated.Schema
import SuitVerif.Generated.Guards
/-! # C03 — parse then create reproduces the envelope (partial)

Proved here: the full statement is false on the extracted schema (finding F4, kernel-checked witness), and the
building blocks of the round trip for the scalar kinds.  The whole-language round-trip theorem (`C03_partial` of
DESIGN.md) is not yet proved; the property is decided on every generated envelope by the correspondence on `parse`
and by byte comparison of the re-created envelope (harness/props/c03.py). -/
namespace SuitVerif.Props.C03
open SuitVerif SuitVerif.Py SuitVerif.Decode SuitVerif.Encode

/-- a context with no files and a constant hash (the statement below does not depend on them) -/
def cx0 : Ctx :=
  { schema := Generated.schema, guards := Generated.guards, fs := fun _ => none, hashFn := fun _ _ => [0],
    sha1 := fun b => b, jsonLoads := fun _ => none }

def envelopeWith (content : String) : Obj :=
  .dict [("SUIT_Envelope_Tagged", .dict [
    ("suit-authentication-wrapper", .dict [("SuitDigest", .dict [("suit-digest-algorithm-id", .str "cose-alg-sha-256")])]),
    ("suit-manifest", .dict [("suit-manifest-version", .int 1), ("suit-manifest-sequence-number", .int 0),
      ("suit-validate", .list [.dict [("suit-directive-override-parameters",
          .dict [("suit-parameter-content", .str content)])]])])])]

/-- create, parse, create again; are the two envelopes equal? -/
def roundTripEqual (o : Obj) : Option Bool :=
  match createTop cx0 o with
  | .ok b => match parse cx0.guards cx0.schema b with
    | .ok o' => match createTop cx0 o' with
      | .ok b' => some (b == b')
      | .error _ => none
    | .error _ => none
  | .error _ => none

/-- **The full statement fails** (finding F4): the raw content `h'0506'` is parsed as the integer 5 (cbor2 ignores
the trailing byte) and re-created as `h'05'`. Checked by the kernel on the schema extracted from the running code. -/
theorem C03_full_fails : roundTripEqual (envelopeWith "0506") = some false := by decide +kernel

/-- non-vacuity / the unambiguous neighbour: content that does not decode as an integer round-trips -/
theorem C03_unambiguous_example : roundTripEqual (envelopeWith "ff0506") = some true := by decide +kernel

/-! ### scalar kinds: `from_cbor(to_cbor(x))` gives back the same object -/

theorem head_first (major n : Nat) : ∃ ai rest, head major n = UInt8.ofNat (major * 32 + ai) :: rest ∧ ai < 28 := by
  unfold head
  split
  · exact ⟨n, [], rfl, by omega⟩
  · split
    · exact ⟨24, _, rfl, by omega⟩
    · split
      · exact ⟨25, _, rfl, by omega⟩
      · split
        · exact ⟨26, _, rfl, by omega⟩
        · exact ⟨27, _, rfl, by omega⟩

/-- an unsigned-integer leaf -/
theorem C03_uint (g : Guards) (n : Nat) (h : n < 2 ^ 64) :
    leafFrom g .uint (enc (.uint n)) = some (.ok (.leaf (.uint n) .plain)) := by
  have hl : loads (enc (.uint n)) = some (.uint n) := by
    have := loads_enc (.uint n) [] (by simpa [Cbor.wf] using h); simpa using this
  obtain ⟨ai, rest, hh, hai⟩ := head_first 0 n
  have hb : (UInt8.ofNat (0 * 32 + ai)).toNat = ai := by
    rw [u8_toNat_ofNat (by omega)]; omega
  have hv : validate (enc (.uint n)) = true := by
    simp only [enc, hh, validate, hb]
    have : ¬ (1 < ai / 32) := by omega
    simp [this]
  have hff : (enc (.uint n)).head? ≠ some 0xFF := by
    simp only [enc, hh, List.head?_cons, ne_eq, Option.some.injEq]
    intro hc
    have := congrArg UInt8.toNat hc
    rw [hb] at this
    simp at this
    omega
  simp [leafFrom, deser, hv, hl, hff, norm, isNone, intLike, bind, Except.bind, pure, Except.pure]

/-- a byte-string leaf: the child receives the content and keeps it verbatim -/
theorem C03_bstr (g : Guards) (b : Bytes) : leafFrom g .bstr (ensure (.bstr b)) = some (.ok (.leaf (.bstr b) .hex)) := by
  simp [leafFrom, ensure]

/-- a UUID leaf -/
theorem C03_uuid (g : Guards) (b : Bytes) (h : b.length = 16) :
    leafFrom g .uuid (ensure (.bstr b)) = some (.ok (.leaf (.bstr b) .rawHex)) := by
  simp [leafFrom, ensure, h]

/-! ### every scalar kind, from the general fact `deserialize_cbor(dumps(v)) = v` (`RoundTrip.deser_enc`) -/
open SuitVerif.RoundTrip

/-- `deserialize_cbor(cbor2.dumps(v)) = v` for every value of the modelled data model that cbor2 hands over unchanged (valid UTF-8, no repeated keys) -/
theorem C03_deser_enc (v : Cbor) (hw : v.wf = true) (hn : norm v = some v) : deser (enc v) = .ok v := deser_enc v hw hn

/-- `validate_cbor` never rejects what the encoder wrote -/
theorem C03_validate_enc (v : Cbor) (hw : v.wf = true) : validate (enc v) = true := validate_enc v hw

theorem ofInt_wf (z : Int) (h : -(2 ^ 64 : Int) ≤ z ∧ z < 2 ^ 64) : (Cbor.ofInt z).wf = true := by
  unfold Cbor.ofInt
  split
  · simp only [Cbor.wf, decide_eq_true_eq]; omega
  · simp only [Cbor.wf, decide_eq_true_eq]; omega

theorem ofInt_norm (z : Int) : norm (Cbor.ofInt z) = some (Cbor.ofInt z) := by
  unfold Cbor.ofInt; split <;> simp [norm]

theorem intLike_ofInt (z : Int) : intLike (Cbor.ofInt z) = some z := by
  unfold Cbor.ofInt
  split
  · simp only [intLike, Option.some.injEq]; omega
  · simp only [intLike, Option.some.injEq]; omega

theorem isNone_ofInt (z : Int) : isNone (Cbor.ofInt z) = false := by
  unfold Cbor.ofInt; split <;> simp [isNone]

/-- a signed-integer leaf (both major types, every head width) -/
theorem C03_int (g : Guards) (z : Int) (h : -(2 ^ 64 : Int) ≤ z ∧ z < 2 ^ 64) :
    leafFrom g .int (enc (Cbor.ofInt z)) = some (.ok (.leaf (Cbor.ofInt z) .plain)) := by
  simp [leafFrom, deser_enc _ (ofInt_wf z h) (ofInt_norm z), intLike_ofInt, bind, Except.bind, pure, Except.pure]

/-- an image-size leaf -/
theorem C03_imageSize (g : Guards) (n : Nat) (h : n < 2 ^ 64) :
    leafFrom g .imageSize (enc (.uint n)) = some (.ok (.leaf (.uint n) .rawInt)) := by
  have hw : (Cbor.uint n).wf = true := by simpa [Cbor.wf] using h
  simp [leafFrom, deser_enc _ hw (by simp [norm]), isNone, intLike, bind, Except.bind, pure, Except.pure]

/-- a text leaf: every valid UTF-8 string -/
theorem C03_tstr (g : Guards) (b : Bytes) (hl : b.length < 2 ^ 64) (hu : (strOf b).isSome = true) :
    leafFrom g .tstr (enc (.tstr b)) = some (.ok (.leaf (.tstr b) .plain)) := by
  have hw : (Cbor.tstr b).wf = true := by simpa [Cbor.wf] using hl
  simp [leafFrom, deser_enc _ hw (by simp [norm, hu]), bind, Except.bind, pure, Except.pure]

/-- booleans and null -/
theorem C03_bool (g : Guards) (v : Bool) :
    leafFrom g .bool (enc (Cbor.bool v)) = some (.ok (.leaf (Cbor.bool v) .plain)) := by
  have hw : (Cbor.bool v).wf = true := by cases v <;> simp [Cbor.bool, Cbor.wf]
  have hn : norm (Cbor.bool v) = some (Cbor.bool v) := by cases v <;> simp [Cbor.bool, norm]
  have hb : isBool (Cbor.bool v) = true := by cases v <;> simp [Cbor.bool, isBool]
  simp [leafFrom, deser_enc _ hw hn, hb, bind, Except.bind, pure, Except.pure]

theorem C03_null (g : Guards) : leafFrom g .null (enc Cbor.null) = some (.ok (.leaf Cbor.null .plain)) := by
  have hw : (Cbor.simple 22).wf = true := by simp [Cbor.wf]
  have hd : deser (enc (Cbor.simple 22)) = .ok (.simple 22) := deser_enc _ hw (by simp [norm])
  simp [leafFrom, Cbor.null, hd, isNone, bind, Except.bind, pure, Except.pure]

/-- an enumeration leaf: in a table without repeated codes every entry's code is read back as that entry's name -/
theorem C03_enum (g : Guards) (es : List (String × Int)) (e : String × Int)
    (hf : es.find? (fun x => x.2 == e.2) = some e) (h : -(2 ^ 64 : Int) ≤ e.2 ∧ e.2 < 2 ^ 64) :
    leafFrom g (.enum es) (enc (Cbor.ofInt e.2)) = some (.ok (.enumv e.1 e.2)) := by
  simp [leafFrom, deser_enc _ (ofInt_wf e.2 h) (ofInt_norm e.2), intLike_ofInt, hf, bind, Except.bind, pure, Except.pure]

/-- the premise of `C03_enum` for every enumeration of the schema extracted from the running code, every entry -/
def enumTablesOk (s : Schema) : Bool :=
  s.classes.all (fun c => match c.2 with
    | .enum es => es.all (fun e => (es.find? (fun x => x.2 == e.2) == some e) && decide (-(2 ^ 64 : Int) ≤ e.2 ∧ e.2 < 2 ^ 64))
    | _ => true)

theorem C03_enum_tables : enumTablesOk Generated.schema = true := by decide +kernel

/-- a one-letter component part -/
theorem C03_bchar (g : Guards) (b : Bytes) (s : String) (hl : b.length = 1) (hs : strOf b = some s)
    (ha : s.toList.all Char.isAlpha = true) : leafFrom g .bchar b = some (.ok (.bchar s)) := by
  simp [leafFrom, hl, hs, ha]

/-- what a parent hands to the child for a byte-string-wrapped member is the member's own encoding -/
theorem ensure_wrapped (n : Node) : ensure (Node.toVal (.wrapped n)) = n.toBytes := by
  simp [Node.toVal, ensure]

/-- one step of the decoder at a byte-string-wrapped class: the child decodes the content -/
theorem C03_cbstr_step (g : Guards) (s : Schema) (fuel : Nat) (c inner : Cls) (b : Bytes) (hty : s.ty c = some (.cbstr inner)) :
    fromBytes g s (fuel + 1) c b = (fromBytes g s fuel inner b).map .wrapped := by
  simp only [fromBytes, hty, leafFrom]
  cases fromBytes g s fuel inner b <;> rfl

/-- one step of the decoder at a tagged class: the registered tag is required and the child decodes the tagged item -/
theorem C03_tag_step (g : Guards) (s : Schema) (fuel : Nat) (c child : Cls) (t : Nat) (name : String) (v : Cbor)
    (hty : s.ty c = some (.tag t name child)) (hw : (Cbor.tag t v).wf = true) (hn : norm v = some v) :
    fromBytes g s (fuel + 1) c (enc (.tag t v)) = (fromBytes g s fuel child (enc v)).map (.tagged t name) := by
  have hd : deser (enc (.tag t v)) = .ok (.tag t v) := deser_enc _ hw (by simp [norm, hn])
  simp only [fromBytes, hty, leafFrom, hd, bind, Except.bind, if_true]
  cases fromBytes g s fuel child (enc v) <;> rfl

/-! ### assembled from the steps of `ReadsBack.lean`: a whole digest, for every algorithm and every value

`Reads g s c b n`: the decoder of class `c` builds exactly `n` from `b` (every sufficient budget).  The digest in the
authentication wrapper is a byte-string-wrapped union whose first alternative is the positional pair
[algorithm, bytes]; the lemma is stated for any schema with that chain, and `C03_digest_chain` finds the chain in the
schema extracted from the running code (class numbers by unification, so a renumbering does not disturb it). -/
open SuitVerif.ReadsBack

theorem ensure_ofInt (z : Int) : ensure (Cbor.ofInt z) = enc (Cbor.ofInt z) := by
  unfold Cbor.ofInt; split <;> simp [ensure]

theorem C03_digest_reads (g : Guards) (s : Schema) (c cu ct ca cb : Cls) (post : List Cls) (k1 k2 : String)
    (es : List (String × Int))
    (h1 : s.ty c = some (.cbstr cu)) (h2 : s.ty cu = some (.union (ct :: post)))
    (h3 : s.ty ct = some (.tupleNamed [(k1, ca), (k2, cb)])) (h4 : s.ty ca = some (.enum es)) (h5 : s.ty cb = some .hex)
    (hk1 : k1.endsWith "*" = false) (hk2 : k2.endsWith "*" = false)
    (e : String × Int) (hf : es.find? (fun x => x.2 == e.2) = some e) (hr : -(2 ^ 64 : Int) ≤ e.2 ∧ e.2 < 2 ^ 64)
    (b : Bytes) (hb : b.length < 2 ^ 64) :
    Reads g s c (enc (.arr [Cbor.ofInt e.2, .bstr b]))
      (.wrapped (.alt 0 (s.name ct) (.tuple [k1, k2] [.enumv e.1 e.2, .leaf (.bstr b) .hex]))) := by
  have hval : valList [Node.enumv e.1 e.2, Node.leaf (.bstr b) .hex] = [Cbor.ofInt e.2, .bstr b] := by
    simp [valList, Node.toVal]
  have hw : (Cbor.arr [Cbor.ofInt e.2, .bstr b]).wf = true := by
    simp only [Cbor.wf, wfList, ofInt_wf e.2 hr, Bool.and_true, Bool.true_and, Bool.and_eq_true, decide_eq_true_eq]
    exact ⟨by simp, hb⟩
  have hn : norm (.arr [Cbor.ofInt e.2, .bstr b]) = some (.arr [Cbor.ofInt e.2, .bstr b]) := by
    simp [norm, normList, ofInt_norm]
  have hfields : Fields g s [(k1, ca), (k2, cb)] [Node.enumv e.1 e.2, Node.leaf (.bstr b) .hex] := by
    refine .cons hk1 ?_ (.cons hk2 ?_ .nil)
    · have : ensure (Node.toVal (.enumv e.1 e.2)) = enc (Cbor.ofInt e.2) := by simp [Node.toVal, ensure_ofInt]
      rw [this]
      exact reads_leaf h4 (C03_enum g es e hf hr)
    · have : ensure (Node.toVal (.leaf (.bstr b) .hex)) = b := by simp [Node.toVal, ensure]
      rw [this]
      exact reads_leaf h5 (by simp [leafFrom])
  have ht := reads_tuple (g := g) (s := s) (c := ct) [(k1, ca), (k2, cb)] [Node.enumv e.1 e.2, Node.leaf (.bstr b) .hex] h3
    (by rw [hval]; exact hw) (by rw [hval]; exact hn) hfields
  rw [hval] at ht
  have hu := reads_union (g := g) (s := s) (c := cu) [] ct post _ _ (by simpa using h2) (by simp) ht
  exact reads_wrapped h1 hu

/-- the chain of `C03_digest_reads` exists in the extracted schema, from the envelope class down to the `SuitDigest` field of
the authentication wrapper (every class number is found by unification from `schema.envelope`) -/
theorem C03_digest_chain :
    ∃ (t : Nat) (nm : String) (cKv : Cls) (esEnv : List Entry) (emb : Option String) (cAw cAuth c cu ct ca cb : Cls)
      (rest : List (String × Cls)) (post : List Cls) (k1 k2 : String) (es : List (String × Int)),
      Generated.schema.ty Generated.schema.envelope = some (.tag t nm cKv) ∧
      Generated.schema.ty cKv = some (.keyValue esEnv emb) ∧
      (esEnv.find? (fun e => e.name == "suit-authentication-wrapper")).map (·.cls) = some cAw ∧
      Generated.schema.ty cAw = some (.cbstr cAuth) ∧
      Generated.schema.ty cAuth = some (.tupleNamed (("SuitDigest", c) :: rest)) ∧
      Generated.schema.ty c = some (.cbstr cu) ∧ Generated.schema.ty cu = some (.union (ct :: post)) ∧
      Generated.schema.ty ct = some (.tupleNamed [(k1, ca), (k2, cb)]) ∧ Generated.schema.ty ca = some (.enum es) ∧
      Generated.schema.ty cb = some .hex ∧ k1.endsWith "*" = false ∧ k2.endsWith "*" = false ∧
      es.all (fun e => (es.find? (fun x => x.2 == e.2) == some e) && decide (-(2 ^ 64 : Int) ≤ e.2 ∧ e.2 < 2 ^ 64)) = true ∧
      0 < es.length := by
  refine ⟨_, _, _, _, _, _, _, _, _, _, _, _, _, _, _, _, _, rfl, rfl, rfl, rfl, rfl, rfl, rfl, rfl, rfl, rfl, ?_, ?_, ?_, ?_⟩ <;> decide +kernel

/-- **On the current tree:** the digest of the authentication wrapper - each algorithm of the extracted table,
any value - is read back by `parse` as exactly the node `create` built, hence rendered with the same name and the same hex
text.  (The table is not empty.) -/
theorem C03_digest_current :
    ∃ (c ct : Cls) (k1 k2 : String) (es : List (String × Int)), 0 < es.length ∧
      ∀ e ∈ es, ∀ (b : Bytes), b.length < 2 ^ 64 →
        Reads Generated.guards Generated.schema c (enc (.arr [Cbor.ofInt e.2, .bstr b]))
          (.wrapped (.alt 0 (Generated.schema.name ct) (.tuple [k1, k2] [.enumv e.1 e.2, .leaf (.bstr b) .hex]))) := by
  obtain ⟨_, _, _, _, _, _, _, c, cu, ct, ca, cb, _, post, k1, k2, es, _, _, _, _, _, h1, h2, h3, h4, h5, hk1, hk2, hall, hlen⟩ :=
    C03_digest_chain
  refine ⟨c, ct, k1, k2, es, hlen, fun e he b hb => ?_⟩
  have := List.all_eq_true.mp hall e he
  simp only [Bool.and_eq_true, beq_iff_eq, decide_eq_true_eq] at this
  exact C03_digest_reads Generated.guards Generated.schema c cu ct ca cb post k1 k2 es h1 h2 h3 h4 h5 hk1 hk2 e this.1 this.2 b hb

/-! ### a first-match premise discharged: the digest of a severed member is not taken for a command sequence -/

/-- the digest union itself (not byte-string-wrapped), as it stands in the manifest for a severed member -/
theorem C03_digest_union_reads (g : Guards) (s : Schema) (cu ct ca cb : Cls) (post : List Cls) (k1 k2 : String)
    (es : List (String × Int))
    (h2 : s.ty cu = some (.union (ct :: post)))
    (h3 : s.ty ct = some (.tupleNamed [(k1, ca), (k2, cb)])) (h4 : s.ty ca = some (.enum es)) (h5 : s.ty cb = some .hex)
    (hk1 : k1.endsWith "*" = false) (hk2 : k2.endsWith "*" = false)
    (e : String × Int) (hf : es.find? (fun x => x.2 == e.2) = some e) (hr : -(2 ^ 64 : Int) ≤ e.2 ∧ e.2 < 2 ^ 64)
    (b : Bytes) (hb : b.length < 2 ^ 64) :
    Reads g s cu (enc (.arr [Cbor.ofInt e.2, .bstr b]))
      (.alt 0 (s.name ct) (.tuple [k1, k2] [.enumv e.1 e.2, .leaf (.bstr b) .hex])) := by
  have hval : valList [Node.enumv e.1 e.2, Node.leaf (.bstr b) .hex] = [Cbor.ofInt e.2, .bstr b] := by
    simp [valList, Node.toVal]
  have hw : (Cbor.arr [Cbor.ofInt e.2, .bstr b]).wf = true := by
    simp only [Cbor.wf, wfList, ofInt_wf e.2 hr, Bool.and_true, Bool.true_and, Bool.and_eq_true, decide_eq_true_eq]
    exact ⟨by simp, hb⟩
  have hn : norm (.arr [Cbor.ofInt e.2, .bstr b]) = some (.arr [Cbor.ofInt e.2, .bstr b]) := by
    simp [norm, normList, ofInt_norm]
  have hfields : Fields g s [(k1, ca), (k2, cb)] [Node.enumv e.1 e.2, Node.leaf (.bstr b) .hex] := by
    refine .cons hk1 ?_ (.cons hk2 ?_ .nil)
    · have : ensure (Node.toVal (.enumv e.1 e.2)) = enc (Cbor.ofInt e.2) := by simp [Node.toVal, ensure_ofInt]
      rw [this]
      exact reads_leaf h4 (C03_enum g es e hf hr)
    · have : ensure (Node.toVal (.leaf (.bstr b) .hex)) = b := by simp [Node.toVal, ensure]
      rw [this]
      exact reads_leaf h5 (by simp [leafFrom])
  have ht := reads_tuple (g := g) (s := s) (c := ct) [(k1, ca), (k2, cb)] [Node.enumv e.1 e.2, Node.leaf (.bstr b) .hex] h3
    (by rw [hval]; exact hw) (by rw [hval]; exact hn) hfields
  rw [hval] at ht
  exact reads_union (g := g) (s := s) (c := cu) [] ct post _ _ (by simpa using h2) (by simp) ht

/-- a severable member given by digest: the union tries the command sequence first, which rejects the digest's bytes because no
condition and no directive carries the code of a hash algorithm; the digest alternative then reads them exactly -/
theorem C03_severed_digest_reads (g : Guards) (s : Schema) (cSev cSeq cL cCmd cCond cDir cu ct ca cb : Cls) (post : List Cls)
    (esC esD : List Entry) (k1 k2 : String) (es : List (String × Int))
    (hS : s.ty cSev = some (.union ([cSeq] ++ cu :: [])))
    (g1 : s.ty cSeq = some (.cbstr cL)) (g2 : s.ty cL = some (.list cCmd (some 2)))
    (g3 : s.ty cCmd = some (.union [cCond, cDir]))
    (g4 : s.ty cCond = some (.keyValueTuple esC)) (g5 : s.ty cDir = some (.keyValueTuple esD))
    (h2 : s.ty cu = some (.union (ct :: post)))
    (h3 : s.ty ct = some (.tupleNamed [(k1, ca), (k2, cb)])) (h4 : s.ty ca = some (.enum es)) (h5 : s.ty cb = some .hex)
    (hk1 : k1.endsWith "*" = false) (hk2 : k2.endsWith "*" = false)
    (e : String × Int) (hf : es.find? (fun x => x.2 == e.2) = some e) (hr : -(2 ^ 64 : Int) ≤ e.2 ∧ e.2 < 2 ^ 64)
    (hc : lookupId esC (Cbor.ofInt e.2) = none) (hd : lookupId esD (Cbor.ofInt e.2) = none)
    (b : Bytes) (hb : b.length < 2 ^ 64) :
    Reads g s cSev (enc (.arr [Cbor.ofInt e.2, .bstr b]))
      (.alt 1 (s.name cu) (.alt 0 (s.name ct) (.tuple [k1, k2] [.enumv e.1 e.2, .leaf (.bstr b) .hex]))) := by
  have hw : (Cbor.arr [Cbor.ofInt e.2, .bstr b]).wf = true := by
    simp only [Cbor.wf, wfList, ofInt_wf e.2 hr, Bool.and_true, Bool.true_and, Bool.and_eq_true, decide_eq_true_eq]
    exact ⟨by simp, hb⟩
  have hrej := digest_rejected_as_sequence (g := g) (s := s) cSeq cL cCmd cCond cDir esC esD e.2 b g1 g2 g3 g4 g5 hc hd hw
    (ofInt_norm e.2)
  have hdig := C03_digest_union_reads g s cu ct ca cb post k1 k2 es h2 h3 h4 h5 hk1 hk2 e hf hr b hb
  have := reads_union (g := g) (s := s) (c := cSev) [cSeq] cu [] _ _ hS (by
    intro c' hc'
    simp only [List.mem_cons, List.not_mem_nil, or_false] at hc'
    subst hc'; exact hrej) hdig
  simpa using this

/-- the premises in the extracted schema, for the member `suit-install` of the manifest and every hash algorithm -/
theorem C03_severed_chain :
    ∃ (t : Nat) (nm : String) (cKv : Cls) (esEnv : List Entry) (emb : Option String) (eM : Entry) (cMk : Cls)
      (esM : List Entry) (embM : Option String) (eI : Entry) (cSeq cL cCmd cCond cDir cu ct ca cb : Cls) (post : List Cls)
      (esC esD : List Entry) (k1 k2 : String) (es : List (String × Int)),
      Generated.schema.ty Generated.schema.envelope = some (.tag t nm cKv) ∧
      Generated.schema.ty cKv = some (.keyValue esEnv emb) ∧
      esEnv.find? (fun e => e.name == "suit-manifest") = some eM ∧
      Generated.schema.ty eM.cls = some (.cbstr cMk) ∧ Generated.schema.ty cMk = some (.keyValue esM embM) ∧
      esM.find? (fun e => e.name == "suit-install") = some eI ∧
      Generated.schema.ty eI.cls = some (.union ([cSeq] ++ cu :: [])) ∧
      Generated.schema.ty cSeq = some (.cbstr cL) ∧ Generated.schema.ty cL = some (.list cCmd (some 2)) ∧
      Generated.schema.ty cCmd = some (.union [cCond, cDir]) ∧
      Generated.schema.ty cCond = some (.keyValueTuple esC) ∧ Generated.schema.ty cDir = some (.keyValueTuple esD) ∧
      Generated.schema.ty cu = some (.union (ct :: post)) ∧
      Generated.schema.ty ct = some (.tupleNamed [(k1, ca), (k2, cb)]) ∧ Generated.schema.ty ca = some (.enum es) ∧
      Generated.schema.ty cb = some .hex ∧ k1.endsWith "*" = false ∧ k2.endsWith "*" = false ∧
      es.all (fun e => (es.find? (fun x => x.2 == e.2) == some e) && decide (-(2 ^ 64 : Int) ≤ e.2 ∧ e.2 < 2 ^ 64) &&
        (lookupId esC (Cbor.ofInt e.2)).isNone && (lookupId esD (Cbor.ofInt e.2)).isNone) = true ∧
      0 < es.length := by
  refine ⟨_, _, _, _, _, _, _, _, _, _, _, _, _, _, _, _, _, _, _, _, _, _, _, _, _, rfl, rfl, rfl, rfl, rfl, rfl, rfl, rfl, rfl, rfl,
    rfl, rfl, rfl, rfl, rfl, rfl, ?_, ?_, ?_, ?_⟩ <;> decide +kernel

/-- **On the current tree:** the digest standing for a severed `suit-install` - any algorithm of the table, any value - is read
back exactly: the command-sequence alternative, tried first, provably rejects it -/
theorem C03_severed_digest_current :
    ∃ (cSev cu ct : Cls) (k1 k2 : String) (es : List (String × Int)), 0 < es.length ∧
      ∀ e ∈ es, ∀ (b : Bytes), b.length < 2 ^ 64 →
        Reads Generated.guards Generated.schema cSev (enc (.arr [Cbor.ofInt e.2, .bstr b]))
          (.alt 1 (Generated.schema.name cu)
            (.alt 0 (Generated.schema.name ct) (.tuple [k1, k2] [.enumv e.1 e.2, .leaf (.bstr b) .hex]))) := by
  obtain ⟨_, _, _, _, _, _, _, _, _, eI, cSeq, cL, cCmd, cCond, cDir, cu, ct, ca, cb, post, esC, esD, k1, k2, es, _, _, _, _, _, _,
    hS, g1, g2, g3, g4, g5, h2, h3, h4, h5, hk1, hk2, hall, hlen⟩ := C03_severed_chain
  refine ⟨eI.cls, cu, ct, k1, k2, es, hlen, fun e he b hb => ?_⟩
  have := List.all_eq_true.mp hall e he
  simp only [Bool.and_eq_true, beq_iff_eq, decide_eq_true_eq, Option.isNone_iff_eq_none] at this
  obtain ⟨⟨⟨hf, hr⟩, hc⟩, hd⟩ := this
  exact C03_severed_digest_reads Generated.guards Generated.schema eI.cls cSeq cL cCmd cCond cDir cu ct ca cb post esC esD k1 k2 es
    hS g1 g2 g3 g4 g5 h2 h3 h4 h5 hk1 hk2 e hf hr hc hd b hb

/-! ### the authentication wrapper of an unsigned envelope: `bstr [ bstr [alg, digest] ]` -/

theorem C03_auth_wrapper_reads (g : Guards) (s : Schema) (cAw cAuth c cu ct ca cb cstar : Cls) (post : List Cls)
    (kd kstar k1 k2 : String) (es : List (String × Int))
    (h0 : s.ty cAw = some (.cbstr cAuth)) (hA : s.ty cAuth = some (.tupleNamed ([(kd, c)] ++ [(kstar, cstar)])))
    (hkd : kd.endsWith "*" = false) (hks : kstar.endsWith "*" = true)
    (h1 : s.ty c = some (.cbstr cu)) (h2 : s.ty cu = some (.union (ct :: post)))
    (h3 : s.ty ct = some (.tupleNamed [(k1, ca), (k2, cb)])) (h4 : s.ty ca = some (.enum es)) (h5 : s.ty cb = some .hex)
    (hk1 : k1.endsWith "*" = false) (hk2 : k2.endsWith "*" = false)
    (e : String × Int) (hf : es.find? (fun x => x.2 == e.2) = some e) (hr : -(2 ^ 64 : Int) ≤ e.2 ∧ e.2 < 2 ^ 64)
    (b : Bytes) (hb : b.length < 2 ^ 64) (hlen : (enc (.arr [Cbor.ofInt e.2, .bstr b])).length < 2 ^ 64) :
    Reads g s cAw (enc (.arr [.bstr (enc (.arr [Cbor.ofInt e.2, .bstr b]))]))
      (.wrapped (.tuple [kd, kstar]
        [.wrapped (.alt 0 (s.name ct) (.tuple [k1, k2] [.enumv e.1 e.2, .leaf (.bstr b) .hex]))])) := by
  let dn : Node := .wrapped (.alt 0 (s.name ct) (.tuple [k1, k2] [.enumv e.1 e.2, .leaf (.bstr b) .hex]))
  have hdb : (Node.alt 0 (s.name ct) (.tuple [k1, k2] [.enumv e.1 e.2, .leaf (.bstr b) .hex])).toBytes
      = enc (.arr [Cbor.ofInt e.2, .bstr b]) := by
    simp [Node.toBytes, valList, Node.toVal]
  have hval : valList [dn] = [.bstr (enc (.arr [Cbor.ofInt e.2, .bstr b]))] := by
    simp only [valList, dn, Node.toVal, hdb]
  have hd := C03_digest_reads g s c cu ct ca cb post k1 k2 es h1 h2 h3 h4 h5 hk1 hk2 e hf hr b hb
  have hfields : Fields g s [(kd, c)] [dn] := by
    refine .cons hkd ?_ .nil
    have : ensure (Node.toVal dn) = enc (.arr [Cbor.ofInt e.2, .bstr b]) := by
      simp only [dn, ensure_wrapped, hdb]
    rw [this]; exact hd
  have hw : (Cbor.arr [.bstr (enc (.arr [Cbor.ofInt e.2, .bstr b]))]).wf = true := by
    simp only [Cbor.wf, wfList, Bool.and_true, Bool.and_eq_true, decide_eq_true_eq]
    exact ⟨by simp, hlen⟩
  have hn : norm (.arr [.bstr (enc (.arr [Cbor.ofInt e.2, .bstr b]))]) = some (.arr [.bstr (enc (.arr [Cbor.ofInt e.2, .bstr b]))]) := by
    simp [norm, normList]
  have ht := reads_tuple_star (g := g) (s := s) (c := cAuth) [(kd, c)] [dn] kstar cstar hA hks
    (by rw [hval]; exact hw) (by rw [hval]; exact hn) hfields
  rw [hval] at ht
  simpa [dn] using reads_wrapped h0 ht

/-- the chain of `C03_auth_wrapper_reads` in the extracted schema -/
theorem C03_auth_chain :
    ∃ (t : Nat) (nm : String) (cKv : Cls) (esEnv : List Entry) (emb : Option String) (cAw cAuth c cu ct ca cb cstar : Cls)
      (post : List Cls) (kstar k1 k2 : String) (es : List (String × Int)),
      Generated.schema.ty Generated.schema.envelope = some (.tag t nm cKv) ∧
      Generated.schema.ty cKv = some (.keyValue esEnv emb) ∧
      (esEnv.find? (fun e => e.name == "suit-authentication-wrapper")).map (·.cls) = some cAw ∧
      Generated.schema.ty cAw = some (.cbstr cAuth) ∧
      Generated.schema.ty cAuth = some (.tupleNamed ([("SuitDigest", c)] ++ [(kstar, cstar)])) ∧
      Generated.schema.ty c = some (.cbstr cu) ∧ Generated.schema.ty cu = some (.union (ct :: post)) ∧
      Generated.schema.ty ct = some (.tupleNamed [(k1, ca), (k2, cb)]) ∧ Generated.schema.ty ca = some (.enum es) ∧
      Generated.schema.ty cb = some .hex ∧ kstar.endsWith "*" = true ∧ k1.endsWith "*" = false ∧ k2.endsWith "*" = false ∧
      es.all (fun e => (es.find? (fun x => x.2 == e.2) == some e) && decide (-(2 ^ 64 : Int) ≤ e.2 ∧ e.2 < 2 ^ 64)) = true ∧
      0 < es.length := by
  refine ⟨_, _, _, _, _, _, _, _, _, _, _, _, _, _, _, _, _, _, rfl, rfl, rfl, rfl, rfl, rfl, rfl, rfl, rfl, rfl, ?_, ?_, ?_, ?_, ?_⟩ <;>
    decide +kernel

/-- **On the current tree:** the authentication wrapper of every unsigned envelope - each algorithm of the table, any digest
value - is read back by the class of envelope member 2 as exactly the node `create` built (digest wrapped twice, no
signature block) -/
theorem C03_auth_wrapper_current :
    ∃ (cAw ct : Cls) (kstar k1 k2 : String) (es : List (String × Int)), 0 < es.length ∧
      ∀ e ∈ es, ∀ (b : Bytes), b.length < 2 ^ 64 → (enc (.arr [Cbor.ofInt e.2, .bstr b])).length < 2 ^ 64 →
        Reads Generated.guards Generated.schema cAw (enc (.arr [.bstr (enc (.arr [Cbor.ofInt e.2, .bstr b]))]))
          (.wrapped (.tuple ["SuitDigest", kstar]
            [.wrapped (.alt 0 (Generated.schema.name ct) (.tuple [k1, k2] [.enumv e.1 e.2, .leaf (.bstr b) .hex]))])) := by
  obtain ⟨_, _, _, _, _, cAw, cAuth, c, cu, ct, ca, cb, cstar, post, kstar, k1, k2, es, _, _, _, h0, hA, h1, h2, h3, h4, h5, hks, hk1,
    hk2, hall, hlen⟩ := C03_auth_chain
  refine ⟨cAw, ct, kstar, k1, k2, es, hlen, fun e he b hb hl => ?_⟩
  have := List.all_eq_true.mp hall e he
  simp only [Bool.and_eq_true, beq_iff_eq, decide_eq_true_eq] at this
  exact C03_auth_wrapper_reads Generated.guards Generated.schema cAw cAuth c cu ct ca cb cstar post "SuitDigest" kstar k1 k2 es
    h0 hA (by decide +kernel) hks h1 h2 h3 h4 h5 hk1 hk2 e this.1 this.2 b hb hl

/-! ### a key/value map: the head of every manifest (version and sequence number), for all values -/

theorem C03_manifest_head_reads (g : Guards) (s : Schema) (c : Cls) (es : List Entry) (emb : Option String) (e1 e2 : Entry)
    (hty : s.ty c = some (.keyValue es emb))
    (hf1 : es.find? (fun e => e.id == e1.id) = some e1) (hf2 : es.find? (fun e => e.id == e2.id) = some e2)
    (hne : e1.id ≠ e2.id) (ht1 : s.ty e1.cls = some .uint) (ht2 : s.ty e2.cls = some .uint)
    (hr1 : -(2 ^ 64 : Int) ≤ e1.id ∧ e1.id < 2 ^ 64) (hr2 : -(2 ^ 64 : Int) ≤ e2.id ∧ e2.id < 2 ^ 64)
    (v q : Nat) (hv : v < 2 ^ 64) (hq : q < 2 ^ 64) :
    Reads g s c (enc (.map [(Cbor.ofInt e1.id, .uint v), (Cbor.ofInt e2.id, .uint q)]))
      (.kv [(entryKey e1, .leaf (.uint v) .plain), (entryKey e2, .leaf (.uint q) .plain)]) := by
  have key := reads_kv (g := g) (s := s) (c := c) es emb
    [(e1, Node.leaf (.uint v) .plain), (e2, Node.leaf (.uint q) .plain)] hty
  simp only [kvsOf, nodesOf, List.map_cons, List.map_nil, Node.toVal] at key
  refine key ?_ ?_ ?_ ?_
  · simp only [Cbor.wf, wfPairs, ofInt_wf _ hr1, ofInt_wf _ hr2, Bool.and_true, Bool.true_and, Bool.and_eq_true,
      decide_eq_true_eq]
    exact ⟨by simp, hv, hq⟩
  · simp [hne]
  · intro p hp
    simp only [List.mem_cons, List.not_mem_nil, or_false] at hp
    rcases hp with rfl | rfl <;> simp [Node.toVal, norm]
  · intro p hp
    simp only [List.mem_cons, List.not_mem_nil, or_false] at hp
    rcases hp with rfl | rfl
    · exact ⟨hf1, by
        have : ensure (Node.toVal (.leaf (.uint v) .plain)) = enc (.uint v) := by simp [Node.toVal, ensure]
        rw [this]; exact reads_leaf ht1 (C03_uint g v hv)⟩
    · exact ⟨hf2, by
        have : ensure (Node.toVal (.leaf (.uint q) .plain)) = enc (.uint q) := by simp [Node.toVal, ensure]
        rw [this]; exact reads_leaf ht2 (C03_uint g q hq)⟩

/-- the manifest class of the extracted schema, reached from the envelope class, with its version and sequence-number
entries (codes 1 and 2, unsigned integers) -/
theorem C03_manifest_chain :
    ∃ (t : Nat) (nm : String) (cKv : Cls) (esEnv : List Entry) (emb : Option String) (cM cMk : Cls) (esM : List Entry)
      (embM : Option String) (e1 e2 : Entry),
      Generated.schema.ty Generated.schema.envelope = some (.tag t nm cKv) ∧
      Generated.schema.ty cKv = some (.keyValue esEnv emb) ∧
      (esEnv.find? (fun e => e.name == "suit-manifest")).map (·.cls) = some cM ∧
      Generated.schema.ty cM = some (.cbstr cMk) ∧ Generated.schema.ty cMk = some (.keyValue esM embM) ∧
      esM.find? (fun e => e.name == "suit-manifest-version") = some e1 ∧
      esM.find? (fun e => e.name == "suit-manifest-sequence-number") = some e2 ∧
      esM.find? (fun e => e.id == e1.id) = some e1 ∧ esM.find? (fun e => e.id == e2.id) = some e2 ∧
      e1.id = 1 ∧ e2.id = 2 ∧ Generated.schema.ty e1.cls = some .uint ∧ Generated.schema.ty e2.cls = some .uint := by
  refine ⟨_, _, _, _, _, _, _, _, _, _, _, rfl, rfl, rfl, rfl, rfl, rfl, rfl, ?_, ?_, ?_, ?_, ?_, ?_⟩ <;> decide +kernel

/-- **On the current tree:** a manifest consisting of its version and any sequence number below 2^64 is read back by the
manifest class (byte-string-wrapped key/value map) as exactly the node `create` built -/
theorem C03_manifest_head_current :
    ∃ (cM : Cls) (e1 e2 : Entry), e1.name = "suit-manifest-version" ∧ e2.name = "suit-manifest-sequence-number" ∧
      ∀ (v q : Nat), v < 2 ^ 64 → q < 2 ^ 64 →
        Reads Generated.guards Generated.schema cM (enc (.map [(Cbor.ofInt e1.id, .uint v), (Cbor.ofInt e2.id, .uint q)]))
          (.wrapped (.kv [(entryKey e1, .leaf (.uint v) .plain), (entryKey e2, .leaf (.uint q) .plain)])) := by
  obtain ⟨_, _, _, _, _, cM, cMk, esM, embM, e1, e2, _, _, _, hM, hMk, hn1, hn2, hf1, hf2, hi1, hi2, ht1, ht2⟩ := C03_manifest_chain
  have hname1 : e1.name = "suit-manifest-version" := by
    have := List.find?_some hn1; simpa using this
  have hname2 : e2.name = "suit-manifest-sequence-number" := by
    have := List.find?_some hn2; simpa using this
  refine ⟨cM, e1, e2, hname1, hname2, fun v q hv hq => ?_⟩
  exact reads_wrapped hM (C03_manifest_head_reads Generated.guards Generated.schema cMk esM embM e1 e2 hMk hf1 hf2
    (by rw [hi1, hi2]; decide) ht1 ht2 (by rw [hi1]; decide) (by rw [hi2]; decide) v q hv hq)

/-! ### assembled: the smallest envelope there is, for all its values

`tag 107 { 2: bstr [ bstr [alg, digest] ], 3: bstr { 1: version, 2: sequence number } }` -/

theorem C03_minimal_envelope_reads (g : Guards) (s : Schema) (cEnv cKv : Cls) (t : Nat) (nm : String) (esEnv : List Entry)
    (emb : Option String) (eA eM : Entry) (aw mf : Node)
    (hE : s.ty cEnv = some (.tag t nm cKv)) (hKv : s.ty cKv = some (.keyValue esEnv emb))
    (hfA : esEnv.find? (fun e => e.id == eA.id) = some eA) (hfM : esEnv.find? (fun e => e.id == eM.id) = some eM)
    (hne : eA.id ≠ eM.id) (hmA : eA.merge = false) (hmM : eM.merge = false)
    (hrA : -(2 ^ 64 : Int) ≤ eA.id ∧ eA.id < 2 ^ 64) (hrM : -(2 ^ 64 : Int) ≤ eM.id ∧ eM.id < 2 ^ 64)
    (ht : t < 2 ^ 64)
    (hwA : aw.toVal.wf = true) (hwM : mf.toVal.wf = true)
    (hnA : norm aw.toVal = some aw.toVal) (hnM : norm mf.toVal = some mf.toVal)
    (hA : Reads g s eA.cls (ensure aw.toVal) aw) (hM : Reads g s eM.cls (ensure mf.toVal) mf) :
    Reads g s cEnv (enc (.tag t (.map [(Cbor.ofInt eA.id, aw.toVal), (Cbor.ofInt eM.id, mf.toVal)])))
      (.tagged t nm (.kv [(entryKey eA, aw), (entryKey eM, mf)])) ∧
    (Node.tagged t nm (.kv [(entryKey eA, aw), (entryKey eM, mf)])).toBytes
      = enc (.tag t (.map [(Cbor.ofInt eA.id, aw.toVal), (Cbor.ofInt eM.id, mf.toVal)])) := by
  have hnd : ([(eA, aw), (eM, mf)].map (·.1.id)).Nodup := by simp [hne]
  have hwmap : (Cbor.map (kvsOf [(eA, aw), (eM, mf)])).wf = true := by
    simp only [kvsOf, List.map_cons, List.map_nil, Cbor.wf, wfPairs, ofInt_wf _ hrA, ofInt_wf _ hrM, hwA, hwM, Bool.and_true,
      Bool.true_and, decide_eq_true_eq]
    simp
  have hnorm : ∀ p ∈ [(eA, aw), (eM, mf)], norm p.2.toVal = some p.2.toVal := by
    intro p hp
    simp only [List.mem_cons, List.not_mem_nil, or_false] at hp
    rcases hp with rfl | rfl
    · exact hnA
    · exact hnM
  have hkv := reads_kv (g := g) (s := s) (c := cKv) esEnv emb [(eA, aw), (eM, mf)] hKv hwmap hnd hnorm (by
    intro p hp
    simp only [List.mem_cons, List.not_mem_nil, or_false] at hp
    rcases hp with rfl | rfl
    · exact ⟨hfA, hA⟩
    · exact ⟨hfM, hM⟩)
  have hbytes := kv_toBytes [(eA, aw), (eM, mf)] (by
    intro p hp
    simp only [List.mem_cons, List.not_mem_nil, or_false] at hp
    rcases hp with rfl | rfl
    · exact hmA
    · exact hmM) hnd
  simp only [kvsOf, nodesOf, List.map_cons, List.map_nil] at hkv hbytes hwmap
  have hnmap := norm_map_kvsOf [(eA, aw), (eM, mf)] hnorm hnd
  simp only [kvsOf, List.map_cons, List.map_nil] at hnmap
  refine ⟨?_, ?_⟩
  · have hval : (Node.kv [(entryKey eA, aw), (entryKey eM, mf)]).toVal
        = .map [(Cbor.ofInt eA.id, aw.toVal), (Cbor.ofInt eM.id, mf.toVal)] := by
      have := kvPairs_nodesOf [(eA, aw), (eM, mf)] [] (by
        intro p hp
        simp only [List.mem_cons, List.not_mem_nil, or_false] at hp
        rcases hp with rfl | rfl
        · exact hmA
        · exact hmM) (by simpa using hnd)
      simp only [kvsOf, nodesOf, List.map_cons, List.map_nil, List.nil_append] at this
      simp only [Node.toVal, this]
    have hwtag : (Cbor.tag t (.map [(Cbor.ofInt eA.id, aw.toVal), (Cbor.ofInt eM.id, mf.toVal)])).wf = true := by
      rw [Cbor.wf, hwmap]; simp [ht]
    exact reads_tagged hE hwtag hnmap hkv
  · have hval : (Node.kv [(entryKey eA, aw), (entryKey eM, mf)]).toVal
        = .map [(Cbor.ofInt eA.id, aw.toVal), (Cbor.ofInt eM.id, mf.toVal)] := by
      have := kvPairs_nodesOf [(eA, aw), (eM, mf)] [] (by
        intro p hp
        simp only [List.mem_cons, List.not_mem_nil, or_false] at hp
        rcases hp with rfl | rfl
        · exact hmA
        · exact hmM) (by simpa using hnd)
      simp only [kvsOf, nodesOf, List.map_cons, List.map_nil, List.nil_append] at this
      simp only [Node.toVal, this]
    simp only [Node.toBytes, hval]

/-- everything the assembled statement needs from the extracted schema, in one chain from `schema.envelope` -/
theorem C03_envelope_chain :
    ∃ (t : Nat) (nm : String) (cKv : Cls) (esEnv : List Entry) (emb : Option String) (eA eM : Entry)
      (cAuth c cu ct ca cb cstar : Cls) (post : List Cls) (kstar k1 k2 : String) (es : List (String × Int))
      (cMk : Cls) (esM : List Entry) (embM : Option String) (e1 e2 : Entry),
      Generated.schema.ty Generated.schema.envelope = some (.tag t nm cKv) ∧
      Generated.schema.ty cKv = some (.keyValue esEnv emb) ∧
      esEnv.find? (fun e => e.name == "suit-authentication-wrapper") = some eA ∧
      esEnv.find? (fun e => e.name == "suit-manifest") = some eM ∧
      Generated.schema.ty eA.cls = some (.cbstr cAuth) ∧
      Generated.schema.ty cAuth = some (.tupleNamed ([("SuitDigest", c)] ++ [(kstar, cstar)])) ∧
      Generated.schema.ty c = some (.cbstr cu) ∧ Generated.schema.ty cu = some (.union (ct :: post)) ∧
      Generated.schema.ty ct = some (.tupleNamed [(k1, ca), (k2, cb)]) ∧ Generated.schema.ty ca = some (.enum es) ∧
      Generated.schema.ty cb = some .hex ∧
      Generated.schema.ty eM.cls = some (.cbstr cMk) ∧ Generated.schema.ty cMk = some (.keyValue esM embM) ∧
      esM.find? (fun e => e.name == "suit-manifest-version") = some e1 ∧
      esM.find? (fun e => e.name == "suit-manifest-sequence-number") = some e2 ∧
      (t = 107 ∧ eA.id = 2 ∧ eM.id = 3 ∧ eA.merge = false ∧ eM.merge = false ∧ e1.id = 1 ∧ e2.id = 2 ∧ e1.merge = false ∧
        e2.merge = false) ∧
      (esEnv.find? (fun e => e.id == eA.id) = some eA ∧ esEnv.find? (fun e => e.id == eM.id) = some eM ∧
        esM.find? (fun e => e.id == e1.id) = some e1 ∧ esM.find? (fun e => e.id == e2.id) = some e2) ∧
      (Generated.schema.ty e1.cls = some .uint ∧ Generated.schema.ty e2.cls = some .uint) ∧
      (kstar.endsWith "*" = true ∧ k1.endsWith "*" = false ∧ k2.endsWith "*" = false) ∧
      es.all (fun e => (es.find? (fun x => x.2 == e.2) == some e) && decide (-(2 ^ 64 : Int) ≤ e.2 ∧ e.2 < 2 ^ 64)) = true ∧
      0 < es.length := by
  refine ⟨_, _, _, _, _, _, _, _, _, _, _, _, _, _, _, _, _, _, _, _, _, _, _, _, rfl, rfl, rfl, rfl, rfl, rfl, rfl, rfl, rfl, rfl,
    rfl, rfl, rfl, rfl, rfl, ?_, ?_, ?_, ?_, ?_, ?_⟩ <;> decide +kernel

/-- **On the current tree: the smallest envelope, for all its values.**  Whatever the digest algorithm (of the extracted
table), the digest value, the manifest version and the sequence number: `parse` builds from the envelope `create` wrote a node
whose own encoding is that very envelope - nothing is dropped, truncated or re-interpreted. -/
theorem C03_minimal_envelope_current :
    ∃ (es : List (String × Int)), 0 < es.length ∧
      ∀ e ∈ es, ∀ (b : Bytes) (v q : Nat), b.length < 2 ^ 64 → v < 2 ^ 64 → q < 2 ^ 64 →
        (enc (.arr [Cbor.ofInt e.2, .bstr b])).length < 2 ^ 64 →
        (enc (.arr [.bstr (enc (.arr [Cbor.ofInt e.2, .bstr b]))])).length < 2 ^ 64 →
        (enc (.map [(Cbor.ofInt 1, .uint v), (Cbor.ofInt 2, .uint q)])).length < 2 ^ 64 →
        ∃ n : Node,
          Reads Generated.guards Generated.schema Generated.schema.envelope
            (enc (.tag 107 (.map [(Cbor.ofInt 2, .bstr (enc (.arr [.bstr (enc (.arr [Cbor.ofInt e.2, .bstr b]))]))),
                                  (Cbor.ofInt 3, .bstr (enc (.map [(Cbor.ofInt 1, .uint v), (Cbor.ofInt 2, .uint q)])))]))) n ∧
          n.toBytes = enc (.tag 107 (.map [(Cbor.ofInt 2, .bstr (enc (.arr [.bstr (enc (.arr [Cbor.ofInt e.2, .bstr b]))]))),
                                  (Cbor.ofInt 3, .bstr (enc (.map [(Cbor.ofInt 1, .uint v), (Cbor.ofInt 2, .uint q)])))])) := by
  obtain ⟨t, nm, cKv, esEnv, emb, eA, eM, cAuth, c, cu, ct, ca, cb, cstar, post, kstar, k1, k2, es, cMk, esM, embM, e1, e2,
    hE, hKv, _, _, hAw, hAuth, h1, h2, h3, h4, h5, hMc, hMk, _, _, hids, hfinds, huint, hstars, hall, hlen⟩ := C03_envelope_chain
  obtain ⟨ht, hiA, hiM, hmA, hmM, hi1, hi2, hm1, hm2⟩ := hids
  obtain ⟨hfA, hfM, hf1, hf2⟩ := hfinds
  obtain ⟨hu1, hu2⟩ := huint
  obtain ⟨hks, hk1, hk2⟩ := hstars
  refine ⟨es, hlen, fun e he b v q hb hv hq hl1 hl2 hl3 => ?_⟩
  have hent := List.all_eq_true.mp hall e he
  simp only [Bool.and_eq_true, beq_iff_eq, decide_eq_true_eq] at hent
  -- the two members
  let awIn : Node := .tuple ["SuitDigest", kstar]
    [.wrapped (.alt 0 (Generated.schema.name ct) (.tuple [k1, k2] [.enumv e.1 e.2, .leaf (.bstr b) .hex]))]
  let mfIn : Node := .kv [(entryKey e1, .leaf (.uint v) .plain), (entryKey e2, .leaf (.uint q) .plain)]
  have hawBytes : awIn.toBytes = enc (.arr [.bstr (enc (.arr [Cbor.ofInt e.2, .bstr b]))]) := by
    simp [awIn, Node.toBytes, valList, Node.toVal]
  have hmfBytes : mfIn.toBytes = enc (.map [(Cbor.ofInt 1, .uint v), (Cbor.ofInt 2, .uint q)]) := by
    have := kv_toBytes [(e1, Node.leaf (.uint v) .plain), (e2, Node.leaf (.uint q) .plain)] (by
      intro p hp
      simp only [List.mem_cons, List.not_mem_nil, or_false] at hp
      rcases hp with rfl | rfl
      · exact hm1
      · exact hm2) (by simp [hi1, hi2])
    simpa [mfIn, kvsOf, nodesOf, Node.toVal, hi1, hi2] using this
  have hA := C03_auth_wrapper_reads Generated.guards Generated.schema eA.cls cAuth c cu ct ca cb cstar post "SuitDigest" kstar k1 k2
    es hAw hAuth (by decide +kernel) hks h1 h2 h3 h4 h5 hk1 hk2 e hent.1 hent.2 b hb hl1
  have hM := reads_wrapped hMc (C03_manifest_head_reads Generated.guards Generated.schema cMk esM embM e1 e2 hMk hf1 hf2
    (by rw [hi1, hi2]; decide) hu1 hu2 (by rw [hi1]; decide) (by rw [hi2]; decide) v q hv hq)
  rw [hi1, hi2] at hM
  have key := C03_minimal_envelope_reads Generated.guards Generated.schema Generated.schema.envelope cKv t nm esEnv emb eA eM
    (.wrapped awIn) (.wrapped mfIn) hE hKv hfA hfM (by rw [hiA, hiM]; decide) hmA hmM (by rw [hiA]; decide) (by rw [hiM]; decide)
    (by rw [ht]; decide)
    (by simp only [Node.toVal, hawBytes, Cbor.wf, decide_eq_true_eq]; exact hl2)
    (by simp only [Node.toVal, hmfBytes, Cbor.wf, decide_eq_true_eq]; exact hl3)
    (by simp [Node.toVal, norm]) (by simp [Node.toVal, norm])
    (by rw [ensure_wrapped, hawBytes]; exact hA)
    (by rw [ensure_wrapped, hmfBytes]; exact hM)
  simp only [Node.toVal, hawBytes, hmfBytes, hiA, hiM, ht] at key
  exact ⟨_, key.1, key.2⟩

/-! ### the other half for the scalar kinds: `from_obj(to_obj(n)) = n` for the leaves the decoder builds

Together with the lemmas above: for these kinds `create(parse(bytes))` rebuilds the very node, hence the very bytes. -/

theorem C03_recreate_uint (cx : Ctx) (n : Nat) :
    leafFromObj cx .uint (toObj (.leaf (.uint n) .plain)) = some (.ok (.leaf (.uint n) .plain)) := by
  simp [toObj, intObj, leafFromObj, scalarOk, scalarVal, Cbor.ofInt]

theorem C03_recreate_int (cx : Ctx) (z : Int) :
    leafFromObj cx .int (toObj (.leaf (Cbor.ofInt z) .plain)) = some (.ok (.leaf (Cbor.ofInt z) .plain)) := by
  have h : intObj (Cbor.ofInt z) = .int z := by
    unfold Cbor.ofInt
    split
    · simp only [intObj, Obj.int.injEq]; omega
    · simp only [intObj, Obj.int.injEq]; omega
  simp [toObj, h, leafFromObj, scalarOk, scalarVal]

theorem C03_recreate_bool (cx : Ctx) (v : Bool) :
    leafFromObj cx .bool (toObj (.leaf (Cbor.bool v) .plain)) = some (.ok (.leaf (Cbor.bool v) .plain)) := by
  cases v <;> simp [toObj, intObj, Cbor.bool, leafFromObj, scalarOk, scalarVal]

theorem C03_recreate_null (cx : Ctx) :
    leafFromObj cx .null (toObj (.leaf Cbor.null .plain)) = some (.ok (.leaf Cbor.null .plain)) := by
  simp [toObj, intObj, Cbor.null, leafFromObj, scalarOk, scalarVal]

/-- byte strings rendered as hex text (digests, payload content, signatures, key ids …) -/
theorem C03_recreate_hex (cx : Ctx) (b : Bytes) :
    leafFromObj cx .hex (toObj (.leaf (.bstr b) .hex)) = some (.ok (.leaf (.bstr b) .hex)) := by
  have h : ofHex (toHex b) = some b := by
    simp [ofHex, toHex, SuitVerif.Props.C05.C05_hex_roundtrip]
  simp [toObj, hexObj, leafFromObj, hexOfObj, h, bind, Except.bind, pure, Except.pure]

/-- enumerations, in a table without repeated names -/
theorem C03_recreate_enum (cx : Ctx) (es : List (String × Int)) (e : String × Int)
    (hf : es.find? (fun x => x.1 == e.1) = some e) :
    leafFromObj cx (.enum es) (toObj (.enumv e.1 e.2)) = some (.ok (.enumv e.1 e.2)) := by
  simp [toObj, leafFromObj, hf]

/-- the premise of `C03_recreate_enum` for every enumeration of the extracted schema, every entry -/
def enumNamesOk (s : Schema) : Bool :=
  s.classes.all (fun c => match c.2 with
    | .enum es => es.all (fun e => es.find? (fun x => x.1 == e.1) == some e)
    | _ => true)

theorem C03_enum_names : enumNamesOk Generated.schema = true := by decide +kernel

end SuitVerif.Props.C03
