import SuitVerif.Update
import SuitVerif.IHexText
/-! # C16 — update-candidate info and DFU partition images describe the envelope file -/
namespace SuitVerif.Props.C16
open SuitVerif SuitVerif.Update SuitVerif.IHex

theorem fields4 (a b c d z : Bytes) (ha : a.length = 4) (hb : b.length = 4) (hc : c.length = 4) (hd : d.length = 4) :
    (a ++ b ++ c ++ d ++ z).take 4 = a ∧ ((a ++ b ++ c ++ d ++ z).drop 4).take 4 = b
    ∧ ((a ++ b ++ c ++ d ++ z).drop 8).take 4 = c ∧ ((a ++ b ++ c ++ d ++ z).drop 12).take 4 = d
    ∧ (a ++ b ++ c ++ d ++ z).drop 16 = z := by
  match a, b, c, d, ha, hb, hc, hd with
  | [a0,a1,a2,a3], [b0,b1,b2,b3], [c0,c1,c2,c3], [d0,d1,d2,d3], _, _, _, _ => simp

/-- The record is magic, 1, partition address, envelope size, then 2n zero words, all little-endian 32-bit;
reading the four fields back gives exactly those values. For all addresses and sizes below 2^32, any cache count. -/
theorem C16_record (dfuAddr size caches : Nat) (r : Bytes) (h : candidateInfo dfuAddr size caches = .ok r) :
    r.length = 16 + 8 * caches
    ∧ ofLe (r.take 4) = 0x55AA55AA
    ∧ ofLe ((r.drop 4).take 4) = 1
    ∧ ofLe ((r.drop 8).take 4) = dfuAddr
    ∧ ofLe ((r.drop 12).take 4) = size
    ∧ r.drop 16 = List.replicate (8 * caches) 0 := by
  unfold candidateInfo at h
  split at h
  · cases h
  · rename_i hlt
    simp only [Except.ok.injEq] at h
    subst h
    have ha : dfuAddr < 256 ^ 4 := by omega
    have hs : size < 256 ^ 4 := by omega
    have l1 := leBytes_length 4 magic
    have l2 := leBytes_length 4 1
    have l3 := leBytes_length 4 dfuAddr
    have l4 := leBytes_length 4 size
    obtain ⟨f1, f2, f3, f4, f5⟩ := fields4 _ _ _ _ (List.replicate (8 * caches) 0) l1 l2 l3 l4
    rw [f1, f2, f3, f4, f5]
    refine ⟨by simp [l1, l2, l3, l4]; omega, ofLe_leBytes 4 magic (by decide), ofLe_leBytes 4 1 (by decide),
      ofLe_leBytes 4 dfuAddr ha, ofLe_leBytes 4 size hs, rfl⟩

/-- values that do not fit 32 bits are rejected -/
theorem C16_record_rejects (dfuAddr size caches : Nat) (h : 2 ^ 32 ≤ dfuAddr ∨ 2 ^ 32 ≤ size) :
    candidateInfo dfuAddr size caches = .error .structError := by
  unfold candidateInfo; simp [h]

/-- the storage image is only the record, at the update-candidate-info address -/
theorem C16_storage_image (uciAddr dfuAddr size caches : Nat) (img : Image)
    (h : storageImage uciAddr dfuAddr size caches = .ok img) :
    ∃ r, candidateInfo dfuAddr size caches = .ok r ∧ img = [(uciAddr, r)] ∧ uciAddr + r.length ≤ 2 ^ 32 := by
  unfold storageImage at h
  cases hr : candidateInfo dfuAddr size caches with
  | error e => simp [hr, bind, Except.bind] at h
  | ok r =>
    simp only [hr, bind, Except.bind] at h
    split at h
    · cases h
    · simp only [pure, Except.pure, Except.ok.injEq] at h
      exact ⟨r, rfl, h.symm, by omega⟩

/-- the DFU partition image is exactly the envelope file's bytes starting at the partition address:
address `dfuAddr + i` holds byte `i` for every `i`, and nothing else is defined. -/
theorem C16_dfu_image (dfuAddr : Nat) (env : Bytes) (img : Image) (h : dfuImage dfuAddr env = .ok img) :
    (∀ i, i < env.length → Image.get img (dfuAddr + i) = env[i]?)
    ∧ (∀ a, (a < dfuAddr ∨ dfuAddr + env.length ≤ a) → Image.get img a = none) := by
  unfold dfuImage at h
  split at h
  · cases h
  · simp only [Except.ok.injEq] at h
    subst h
    constructor
    · intro i hi
      simp [place, Image.get, hi]
    · intro a ha
      simp only [place, Image.get]
      have : ¬ (dfuAddr ≤ a ∧ a < dfuAddr + env.length) := by omega
      simp [this]

/-- model ⟹ spec: the storage image the model produces satisfies `checkStorage` (the predicate the harness
also evaluates on the file the real tool wrote) -/
theorem C16_storage_checks (uciAddr dfuAddr size caches : Nat) (img : Image)
    (h : storageImage uciAddr dfuAddr size caches = .ok img) :
    checkStorage img uciAddr dfuAddr size caches = true := by
  obtain ⟨r, hr, himg, _⟩ := C16_storage_image uciAddr dfuAddr size caches img h
  obtain ⟨h1, h2, h3, h4, h5, h6⟩ := C16_record dfuAddr size caches r hr
  have hne : r ≠ [] := by intro h0; rw [h0] at h1; simp at h1; omega
  subst himg
  simp [checkStorage, canon_single _ _ hne, h1, h2, h3, h4, h5, h6]

/-- model ⟹ spec for the DFU partition image -/
theorem C16_dfu_checks (dfuAddr : Nat) (env : Bytes) (img : Image) (h : dfuImage dfuAddr env = .ok img) :
    checkDfu img dfuAddr env = true := by
  unfold dfuImage at h
  split at h
  · cases h
  · simp only [Except.ok.injEq] at h
    subst h
    by_cases he : env = []
    · subst he; simp [checkDfu, place, canon_single_empty]
    · simp [checkDfu, place, canon_single _ _ he]

/-! ### file level: the text of the hex files (writer model `IHex.writeText` of the third-party `intelhex` writer, `IHexWrite.lean`)

The statements above are about the memory image a file denotes; these two carry them to the characters of the file: the strict reader, on
the text the writer model produces for the image, gives back exactly the image - so `checkStorage` / `checkDfu` hold of what is read from the
file (for every address and size the model accepts). -/

/-- the DFU partition file, as text, reads back as exactly the envelope file's bytes at the partition address -/
theorem C16_dfu_file (dfuAddr : Nat) (env : Bytes) (img : Image) (h : dfuImage dfuAddr env = .ok img) :
    ∃ img', IHex.read (IHex.writeText dfuAddr env) = some img' ∧ checkDfu img' dfuAddr env = true := by
  have hc := C16_dfu_checks dfuAddr env img h
  unfold dfuImage at h
  split at h
  · cases h
  · rename_i hb
    simp only [Except.ok.injEq] at h
    refine ⟨_, IHex.read_writeText dfuAddr env (by omega), ?_⟩
    by_cases he : env = []
    · subst he; simp [checkDfu, canon]
      simp [sortSegs, mergeSorted]
    · simp [checkDfu, he, canon_single _ _ he]

/-- the storage file, as text, reads back as exactly the update-candidate record at its address -/
theorem C16_storage_file (uciAddr dfuAddr size caches : Nat) (img : Image)
    (h : storageImage uciAddr dfuAddr size caches = .ok img) :
    ∃ r, candidateInfo dfuAddr size caches = .ok r ∧ IHex.read (IHex.writeText uciAddr r) = some img
      ∧ checkStorage img uciAddr dfuAddr size caches = true := by
  have hc := C16_storage_checks uciAddr dfuAddr size caches img h
  obtain ⟨r, hr, himg, hb⟩ := C16_storage_image uciAddr dfuAddr size caches img h
  obtain ⟨h1, _⟩ := C16_record dfuAddr size caches r hr
  have hne : r ≠ [] := by intro h0; rw [h0] at h1; simp at h1; omega
  refine ⟨r, hr, ?_, hc⟩
  rw [IHex.read_writeText uciAddr r hb, himg]
  simp [hne]

example : (candidateInfo 0x0E100000 1234 2).toOption.map List.length = some 32 := by decide

/-- a concrete file: 18 bytes across a 64 KiB border - the text of the file (kernel evaluation of the writer model) -/
example : IHex.writeText 65530 ((List.range 18).map UInt8.ofNat) =
    ":020000040000FA\n:06FFFA00000102030405F2\n:020000040001F9\n:0C000000060708090A0B0C0D0E0F10116A\n:00000001FF\n" := by decide +kernel

end SuitVerif.Props.C16
