import SuitVerif.Encrypt
import SuitVerif.CborProofs
import SuitVerif.Encode
import SuitVerif.Generated.Consts
/-! # C06 — encryption artifacts are mutually consistent and decrypt to the firmware -/
namespace SuitVerif.Props.C06
open SuitVerif SuitVerif.Encrypt

/-- **AAD ↔ published header.** The additional authenticated data the encrypt script hands to the KMS (read from the
running code on this run) *is* the COSE Enc_structure `["Encrypt", protected, h'']` of the protected header it later
publishes, `{1: 3}`.  If either side is changed alone, this stops checking. -/
theorem C06_aad : Generated.aadLiteral = encStructure protectedHeader := by decide +kernel

/-- the published protected header names AES-GCM-256, the recipient the direct key (−6) in the extracted enum -/
theorem C06_algs : ("COSE_ALG_AES_GCM_256", (3 : Int)) ∈ Generated.coseEncryptAlgs
    ∧ ("COSE_ALG_DIRECT", (-6 : Int)) ∈ Generated.coseEncryptAlgs
    ∧ protectedHeader = [0xA1, 0x01, 0x03] := by decide +kernel

/-- **generate-info alters no byte.** For a blob of at least 28 bytes: IV (12) || tag (16) || ciphertext reassembles
the blob, and the emitted payload is tag || ciphertext = the blob without its first 12 bytes. -/
theorem C06_split (asset : Bytes) (h : 28 ≤ asset.length) :
    let (iv, tag, ct) := splitAsset asset
    iv.length = 12 ∧ tag.length = 16 ∧ iv ++ tag ++ ct = asset ∧ tag ++ ct = asset.drop 12 := by
  simp only [splitAsset]
  refine ⟨by simp; omega, by simp; omega, ?_, ?_⟩
  · have : asset.drop 28 = (asset.drop 12).drop 16 := by simp
    rw [this, List.append_assoc, List.take_append_drop, List.take_append_drop]
  · have : asset.drop 28 = (asset.drop 12).drop 16 := by simp
    rw [this, List.take_append_drop]

theorem ofInt_wf (i : Int) (h : -(2 ^ 64 : Int) ≤ i ∧ i < 2 ^ 64) : (Cbor.ofInt i).wf = true := by
  unfold Cbor.ofInt
  split
  · simp only [Cbor.wf, decide_eq_true_eq]; omega
  · simp only [Cbor.wf, decide_eq_true_eq]; omega

theorem enc_ofInt_len (i : Int) : (enc (Cbor.ofInt i)).length ≤ 9 := by
  unfold Cbor.ofInt
  split <;> (simp only [enc, head]; (repeat' split) <;> simp [beBytes_length])

theorem head_length_le (m n : Nat) : (head m n).length ≤ 9 := by
  unfold head; (repeat' split) <;> simp [beBytes_length]

theorem toInt_ofInt (i : Int) : (Cbor.ofInt i).toInt? = some i := by
  unfold Cbor.ofInt
  split
  · simp only [Cbor.toInt?]; congr 1; omega
  · simp only [Cbor.toInt?]; congr 1; omega

set_option linter.unusedSimpArgs false in
set_option linter.unusedVariables false in
theorem info_ok (iv : Bytes) (cekItem : Cbor) (keyId kwAlg : Int) (hkwf : (Cbor.ofInt kwAlg).wf = true)
    (hklen : (enc (Cbor.ofInt keyId)).length ≤ 9) (hkwlen : (enc (Cbor.ofInt kwAlg)).length ≤ 9)
    (hiv : iv.length < 2 ^ 32) (hcw : cekItem.wf = true) (hcl : (enc cekItem).length < 2 ^ 33) :
    let inner := (Cbor.tag 96 (.arr [
      .bstr protectedHeader, .map [(.uint 5, .bstr iv)], Cbor.null,
      .arr [.arr [.bstr [], .map [(.uint 1, Cbor.ofInt kwAlg), (.uint 4, .bstr (enc (Cbor.ofInt keyId)))], cekItem]]]))
    inner.wf = true ∧ (enc inner).length < 2 ^ 64 := by
  have hph : protectedHeader.length = 3 := by decide
  constructor
  · simp only [Cbor.wf, wfList, wfPairs, hkwf, hcw, hph, Bool.and_true, Bool.true_and, Bool.and_eq_true,
      decide_eq_true_eq, List.length_cons, List.length_nil, Cbor.null]
    omega
  · have h1 := head_length_le 6 96
    have h2 := head_length_le 4 (0 + 1 + 1 + 1 + 1)
    have h3 := head_length_le 2 3
    have h4 := head_length_le 5 (0 + 1)
    have h5 := head_length_le 0 5
    have h6 := head_length_le 2 iv.length
    have h7 := head_length_le 7 22
    have h8 := head_length_le 4 (0 + 1)
    have h9 := head_length_le 4 (0 + 1 + 1 + 1)
    have h10 := head_length_le 2 0
    have h11 := head_length_le 5 (0 + 1 + 1)
    have h12 := head_length_le 0 1
    have h13 := head_length_le 0 4
    have h14 := head_length_le 2 (enc (Cbor.ofInt keyId)).length
    simp only [enc, encList, encPairs, List.length_append, List.length_nil, List.length_cons, Cbor.null, hph]
    omega

def cekItem (cek : Option Bytes) : Cbor := match cek with | some c => .bstr c | none => Cbor.null

theorem encryptionInfo_eq (iv : Bytes) (cek : Option Bytes) (keyId kwAlg : Int) :
    encryptionInfo iv cek keyId kwAlg = enc (.bstr (enc (.tag 96 (.arr [
      .bstr protectedHeader, .map [(.uint 5, .bstr iv)], Cbor.null,
      .arr [.arr [.bstr [], .map [(.uint 1, Cbor.ofInt kwAlg), (.uint 4, .bstr (enc (Cbor.ofInt keyId)))], cekItem cek]]])))) := by
  unfold encryptionInfo cekItem; rfl

/-- **Shape of the encryption info.** Reading `suit_encryption_info.bin` with the strict reader gives a byte string
wrapping tag 96 over `[protected {1:3}, {5: iv}, nil, [[h'', {1: kw, 4: bstr .cbor key-id}, cek]]]` - i.e. exactly the
IV, key identifier, key-wrap algorithm and CEK that went in.  All key ids in [-2^64, 2^64), IV and CEK below 2^32 bytes. -/
theorem C06_info_shape (iv : Bytes) (cek : Option Bytes) (keyId kwAlg : Int)
    (hk : -(2 ^ 64 : Int) ≤ keyId ∧ keyId < 2 ^ 64) (hkw : -(2 ^ 64 : Int) ≤ kwAlg ∧ kwAlg < 2 ^ 64)
    (hiv : iv.length < 2 ^ 32) (hcek : ∀ c, cek = some c → c.length < 2 ^ 32) :
    readInfo (encryptionInfo iv cek keyId kwAlg)
      = some { protectedBytes := protectedHeader, iv := iv, keyId := keyId, kwAlg := kwAlg, cek := cek } := by
  have hkid := ofInt_wf keyId hk
  have hkwf := ofInt_wf kwAlg hkw
  have hcw : (cekItem cek).wf = true := by
    cases cek with
    | none => decide
    | some c => have := hcek c rfl; simp only [cekItem, Cbor.wf, decide_eq_true_eq]; omega
  have hcl : (enc (cekItem cek)).length < 2 ^ 33 := by
    cases cek with
    | none => decide
    | some c =>
      have := hcek c rfl
      have := head_length_le 2 c.length
      simp only [cekItem, enc, List.length_append]; omega
  obtain ⟨hwf, hlen⟩ := info_ok iv (cekItem cek) keyId kwAlg hkwf (enc_ofInt_len keyId) (enc_ofInt_len kwAlg) hiv hcw hcl
  rw [encryptionInfo_eq]
  unfold readInfo
  rw [decodeStrict_enc _ (by simpa [Cbor.wf] using hlen)]
  simp only
  rw [decodeStrict_enc _ hwf]
  simp only [Cbor.null, toInt_ofInt, decodeStrict_enc _ hkid, Option.bind]
  cases cek with
  | none => simp [cekItem, Cbor.null]
  | some c => simp [cekItem]

/-- **Decrypts to the firmware.** Under the AES-GCM hypothesis (`gcmDec` inverts `gcmEnc` for the same key, nonce and
associated data), decrypting what a consumer reads out of the published artifacts - the IV from the encryption info,
the Enc_structure of the *published* protected header as associated data, `encrypted_content.bin` split at 16 bytes
into tag and ciphertext - yields exactly the firmware. For every key, nonce, firmware, key id, tag length 16. -/
theorem C06_decrypts (gcm : GcmEnc) (gcmDec : Bytes → Bytes → Bytes → Bytes × Bytes → Option Bytes)
    (hgcm : ∀ k n a p, gcmDec k n a (gcm k n a p) = some p)
    (htag : ∀ k n a p, (gcm k n a p).2.length = 16)
    (key nonce firmware : Bytes) (keyId : Int) (hn : nonce.length = 12)
    (hk : -(2 ^ 64 : Int) ≤ keyId ∧ keyId < 2 ^ 64) :
    let a := encryptAndGenerate ⟨Generated.aadLiteral⟩ gcm key nonce firmware keyId
    ∃ v, readInfo a.encryptionInfo = some v ∧ v.iv = nonce ∧ v.keyId = keyId ∧ v.kwAlg = -6
      ∧ gcmDec key v.iv (encStructure v.protectedBytes) (a.encryptedContent.drop 16, a.encryptedContent.take 16)
          = some firmware := by
  simp only [encryptAndGenerate, generate, splitAsset]
  have ht := htag key nonce Generated.aadLiteral firmware
  generalize hg : gcm key nonce Generated.aadLiteral firmware = r at *
  obtain ⟨ct, tag⟩ := r
  simp only at ht
  have e1 : (nonce ++ tag ++ ct).take 12 = nonce := by
    rw [List.append_assoc, List.take_left' hn]
  have e2 : ((nonce ++ tag ++ ct).drop 12).take 16 = tag := by
    rw [List.append_assoc, List.drop_left' hn, List.take_left' ht]
  have e3 : (nonce ++ tag ++ ct).drop 28 = ct := by
    have : (nonce ++ tag).length = 28 := by simp [hn, ht]
    rw [List.drop_left' this]
  simp only [e1, e2, e3]
  have hshape := C06_info_shape nonce none keyId (-6) hk (by decide) (by omega) (by intro c h; cases h)
  refine ⟨_, hshape, rfl, rfl, rfl, ?_⟩
  simp only [List.drop_left' ht, List.take_left' ht]
  rw [← C06_aad, ← hg]
  exact hgcm key nonce Generated.aadLiteral firmware

theorem validate_wide (major ai w n : Nat) (tail : Bytes) (hm : major < 8) (hai : 24 ≤ ai ∧ ai ≤ 27)
    (hw : aiWidth ai = w) (hn : n < 256 ^ w) (hlen : n ≤ tail.length) :
    Py.validate (UInt8.ofNat (major * 32 + ai) :: (beBytes w n ++ tail)) = true := by
  unfold Py.validate
  have h1 : (UInt8.ofNat (major * 32 + ai)).toNat = major * 32 + ai := u8_toNat_ofNat (by omega)
  have h2 : (major * 32 + ai) / 32 = major := by omega
  have h3 : (major * 32 + ai) % 32 = ai := by omega
  have hl : (beBytes w n).length = w := beBytes_length _ _
  simp only [h1, h2, h3, hw]
  split
  · have hnl : ¬ (beBytes w n ++ tail).length < w := by simp [hl]
    have htake : List.take w (beBytes w n ++ tail) = beBytes w n := by
      rw [List.take_append_of_le_length (by omega)]; exact List.take_of_length_le (by omega)
    simp only [hnl, if_false, htake, ofBe_beBytes w n hn]
    simp [hl]; omega
  · rfl

theorem validate_enc_bstr (inner : Bytes) (hl : inner.length < 2 ^ 64) : Py.validate (enc (.bstr inner)) = true := by
  simp only [enc]
  by_cases h24 : inner.length < 24
  · have : head 2 inner.length = [UInt8.ofNat (2 * 32 + inner.length)] := by simp [head, h24]
    rw [this]
    unfold Py.validate
    have h1 : (UInt8.ofNat (2 * 32 + inner.length)).toNat = 2 * 32 + inner.length := u8_toNat_ofNat (by omega)
    have h3 : (2 * 32 + inner.length) % 32 = inner.length := by omega
    simp only [List.cons_append, List.nil_append, h1, h3]
    have : ¬ (23 < inner.length) := by omega
    simp [this]
  · by_cases h256 : inner.length < 256
    · have : head 2 inner.length = UInt8.ofNat (2 * 32 + 24) :: beBytes 1 inner.length := by simp [head, h24, h256]
      rw [this]
      exact validate_wide 2 24 1 _ inner (by decide) (by decide) (by simp [aiWidth]) (by simpa using h256) (Nat.le_refl _)
    · by_cases h65536 : inner.length < 65536
      · have : head 2 inner.length = UInt8.ofNat (2 * 32 + 25) :: beBytes 2 inner.length := by simp [head, h24, h256, h65536]
        rw [this]
        exact validate_wide 2 25 2 _ inner (by decide) (by decide) (by simp [aiWidth]) (by simpa using h65536) (Nat.le_refl _)
      · by_cases h32 : inner.length < 4294967296
        · have : head 2 inner.length = UInt8.ofNat (2 * 32 + 26) :: beBytes 4 inner.length := by simp [head, h24, h256, h65536, h32]
          rw [this]
          exact validate_wide 2 26 4 _ inner (by decide) (by decide) (by simp [aiWidth]) (by simpa using h32) (Nat.le_refl _)
        · have : head 2 inner.length = UInt8.ofNat (2 * 32 + 27) :: beBytes 8 inner.length := by simp [head, h24, h256, h65536, h32]
          rw [this]
          exact validate_wide 2 27 8 _ inner (by decide) (by decide) (by simp [aiWidth]) (by simpa using hl) (Nat.le_refl _)

theorem head_first (major n : Nat) : ∃ ai rest, head major n = UInt8.ofNat (major * 32 + ai) :: rest ∧ ai < 28 := by
  unfold head
  split
  · exact ⟨n, [], rfl, by omega⟩
  · split
    · exact ⟨24, _, rfl, by omega⟩
    · split
      · exact ⟨25, _, rfl, by omega⟩
      · split
        · exact ⟨26, _, rfl, by omega⟩
        · exact ⟨27, _, rfl, by omega⟩

/-- **create accepts the encryption info unchanged**: given as `{raw: <hex>}` (or a file with these bytes), the
encryption-info parameter holds the inner byte string, whose `to_cbor()` is the info again -/
theorem C06_create_accepts (cx : Encode.Ctx) (info inner : Bytes) (h : info = enc (.bstr inner))
    (hl : inner.length < 2 ^ 64) :
    Py.deser info = .ok (.bstr inner) ∧ (Node.leaf (.bstr inner) .hex).toBytes = info := by
  subst h
  have hwf : (Cbor.bstr inner).wf = true := by simpa [Cbor.wf] using hl
  have hloads : loads (enc (.bstr inner)) = some (.bstr inner) := by
    have := loads_enc (.bstr inner) [] hwf; simpa using this
  refine ⟨?_, rfl⟩
  have hne : (enc (Cbor.bstr inner)).head? ≠ some 0xFF := by
    obtain ⟨ai, rest, hh, hai⟩ := head_first 2 inner.length
    simp only [enc, hh, List.cons_append, List.head?_cons, ne_eq, Option.some.injEq]
    intro hc
    have := congrArg UInt8.toNat hc
    rw [u8_toNat_ofNat (by omega)] at this
    simp at this
    omega
  have hv : Py.validate (enc (.bstr inner)) = true := validate_enc_bstr inner hl
  simp [Py.deser, hv, hne, hloads, Py.norm]

end SuitVerif.Props.C06
