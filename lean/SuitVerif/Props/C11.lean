import SuitVerif.Extract
import SuitVerif.CborProofs
/-! # C11 — payload extraction conserves payloads and leaves authenticated content intact -/
namespace SuitVerif.Props.C11
open SuitVerif SuitVerif.Extract SuitVerif.Cache

theorem tstr_beq (a b : Bytes) : ((Cbor.tstr a) == (Cbor.tstr b)) = (a == b) := by
  simp [BEq.beq, Cbor.beq]

theorem tstr_uint_beq (a : Bytes) (n : Nat) : ((Cbor.tstr a) == (Cbor.uint n)) = false := by
  simp [BEq.beq, Cbor.beq]

/-- a key `x` with `x == tstr a` is not `== uint n` -/
theorem beq_tstr_not_uint (x : Cbor) (a : Bytes) (n : Nat) (h : (x == Cbor.tstr a) = true) : (x == Cbor.uint n) = false := by
  cases x <;> simp_all [BEq.beq, Cbor.beq]

theorem lookup_uint_mapRemove (m : List (Cbor × Cbor)) (a : Bytes) (n : Nat) :
    Cbor.lookup (.uint n) (mapRemove m (.tstr a)) = Cbor.lookup (.uint n) m := by
  induction m with
  | nil => rfl
  | cons e rest ih =>
    simp only [mapRemove, List.filter]
    by_cases hc : (e.1 == Cbor.tstr a) = true
    · have := beq_tstr_not_uint e.1 a n hc
      simp only [hc, Bool.not_true, Cbor.lookup, this, Bool.false_eq_true, if_false]
      exact ih
    · simp only [Bool.not_eq_true] at hc
      simp only [hc, Bool.not_false, Cbor.lookup]
      split
      · rfl
      · exact ih

theorem lookup_uint_replace (m : List (Cbor × Cbor)) (a : Bytes) (v : Cbor) (n : Nat) :
    Cbor.lookup (.uint n) (m.map (fun e => if e.1 == Cbor.tstr a then (e.1, v) else e)) = Cbor.lookup (.uint n) m := by
  induction m with
  | nil => rfl
  | cons e rest ih =>
    simp only [List.map_cons, Cbor.lookup]
    by_cases hc : (e.1 == Cbor.tstr a) = true
    · have := beq_tstr_not_uint e.1 a n hc
      simp only [hc, if_true, this, Bool.false_eq_true, if_false]
      exact ih
    · simp only [hc, if_false, Bool.false_eq_true]
      split
      · rfl
      · exact ih

theorem lookup_uint_append (m : List (Cbor × Cbor)) (a : Bytes) (v : Cbor) (n : Nat) :
    Cbor.lookup (.uint n) (m ++ [(Cbor.tstr a, v)]) = Cbor.lookup (.uint n) m := by
  induction m with
  | nil => simp [Cbor.lookup, tstr_uint_beq]
  | cons e rest ih =>
    simp only [List.cons_append, Cbor.lookup]
    split
    · rfl
    · exact ih

theorem lookup_uint_mapSet (m : List (Cbor × Cbor)) (a : Bytes) (v : Cbor) (n : Nat) :
    Cbor.lookup (.uint n) (Extract.mapSet m (.tstr a) v) = Cbor.lookup (.uint n) m := by
  unfold Extract.mapSet
  split
  · exact lookup_uint_replace m a v n
  · exact lookup_uint_append m a v n

/-- moving payloads into the cache leaves every integer-keyed member of the envelope map untouched -/
theorem extractPayloads_keeps (eb : Nat) (n : Nat) :
    ∀ (names : List Bytes) (s s' : Cache.State) (m m' : List (Cbor × Cbor)),
      extractPayloads eb s m names = .ok (s', m') → Cbor.lookup (.uint n) m' = Cbor.lookup (.uint n) m := by
  intro names
  induction names with
  | nil => intro s s' m m' h; simp only [extractPayloads, Except.ok.injEq, Prod.mk.injEq] at h; rw [h.2]
  | cons name rest ih =>
    intro s s' m m' h
    simp only [extractPayloads] at h
    split at h
    · split at h
      · rw [ih _ _ _ _ h, lookup_uint_mapRemove]
      · cases h
    · cases h
    · cases h

/-- **All other members are byte-identical, at every level.** The output envelope of `cache_create from_envelope` is
the same tag over a map in which every integer-keyed member (manifest, authentication wrapper, severed members) is the
same value as in the input; for a dependency the statement holds again for the envelope re-embedded under its name. -/
theorem C11_untouched (eb : Nat) (isDep isOmitted : Bytes → Bool) (n : Nat) :
    ∀ (fuel : Nat),
      (∀ (s s' : Cache.State) (data out : Bytes), fill eb isDep isOmitted fuel s data = .ok (s', out) →
        ∃ t m m', loads data = some (.tag t (.map m)) ∧ out = enc (.tag t (.map m'))
          ∧ Cbor.lookup (.uint n) m' = Cbor.lookup (.uint n) m)
      ∧ (∀ (s s' : Cache.State) (m m' : List (Cbor × Cbor)) (deps : List Bytes),
          fillDeps eb isDep isOmitted fuel s m deps = .ok (s', m') → Cbor.lookup (.uint n) m' = Cbor.lookup (.uint n) m) := by
  intro fuel
  induction fuel with
  | zero =>
    constructor
    · intro s s' data out h; simp [fill] at h
    · intro s s' m m' deps h; simp [fillDeps] at h
  | succ fuel ih =>
    constructor
    · intro s s' data out h
      simp only [fill] at h
      split at h
      · rename_i t m hl
        split at h
        · cases h
        · rename_i s1 m1 he
          split at h
          · cases h
          · rename_i s2 m2 hd
            simp only [Except.ok.injEq, Prod.mk.injEq] at h
            refine ⟨t, m, m2, hl, h.2.symm, ?_⟩
            rw [ih.2 _ _ _ _ _ hd, extractPayloads_keeps eb n _ _ _ _ _ he]
      · cases h
    · intro s s' m m' deps h
      cases deps with
      | nil => simp only [fillDeps, Except.ok.injEq, Prod.mk.injEq] at h; rw [h.2]
      | cons d rest =>
        simp only [fillDeps] at h
        split at h
        · split at h
          · rw [ih.2 _ _ _ _ _ h, lookup_uint_mapSet]
          · cases h
          · cases h
        · cases h
        · cases h

/-- the output of `payload_extract` without replacement: the same tag over the input map without the named member;
every other member keeps its value and its position; the extracted payload is the member's value -/
theorem C11_extract_one (envelope name : Bytes) (t : Nat) (m : List (Cbor × Cbor))
    (hl : loads envelope = some (.tag t (.map m))) :
    payloadExtract envelope name none
      = .ok (enc (.tag t (.map (m.filter (fun e => !(e.1 == Cbor.tstr name))))), Cbor.lookup (.tstr name) m) := by
  simp [payloadExtract, hl, mapRemove]

/-- with a replacement the new bytes are stored under the same name (appended), nothing else differs -/
theorem C11_replace (envelope name r : Bytes) (t : Nat) (m : List (Cbor × Cbor))
    (hl : loads envelope = some (.tag t (.map m))) :
    payloadExtract envelope name (some r)
      = .ok (enc (.tag t (.map (m.filter (fun e => !(e.1 == Cbor.tstr name)) ++ [(.tstr name, .bstr r)]))),
             Cbor.lookup (.tstr name) m) := by
  simp [payloadExtract, hl, mapRemove]

/-- filtering out a text key keeps every integer-keyed member -/
theorem C11_extract_keeps (m : List (Cbor × Cbor)) (name : Bytes) (n : Nat) :
    Cbor.lookup (.uint n) (m.filter (fun e => !(e.1 == Cbor.tstr name))) = Cbor.lookup (.uint n) m :=
  lookup_uint_mapRemove m name n

/-- the values of the members `names` of the map, each looked up after the earlier ones were popped -/
def payloadValues : List (Cbor × Cbor) → List Bytes → List Bytes
  | _, [] => []
  | m, name :: rest =>
    match Cbor.lookup (.tstr name) m with
    | some (.bstr v) => v :: payloadValues (mapRemove m (.tstr name)) rest
    | _ => []

/-- **Every extracted payload ends up in the cache, in order, with identical bytes**: moving the payloads `names`
out of the map is exactly `add_cache_slot` for each (name, member value) pair - so the cache is what `from_payloads`
builds for those pairs (C10 then says how it decodes) - and the map loses exactly those members. -/
theorem C11_moved (eb : Nat) :
    ∀ (names : List Bytes) (s s' : Cache.State) (m m' : List (Cbor × Cbor)),
      extractPayloads eb s m names = .ok (s', m') →
      (payloadValues m names).length = names.length
        ∧ Cache.addSlots eb s (names.zip (payloadValues m names)) = .ok s'
        ∧ m' = names.foldl (fun acc nm => mapRemove acc (.tstr nm)) m := by
  intro names
  induction names with
  | nil =>
    intro s s' m m' h
    simp only [extractPayloads, Except.ok.injEq, Prod.mk.injEq] at h
    exact ⟨rfl, by simp [payloadValues, Cache.addSlots, h.1], by simp [h.2]⟩
  | cons name rest ih =>
    intro s s' m m' h
    simp only [extractPayloads] at h
    split at h
    · rename_i v hv
      split at h
      · rename_i s1 hs1
        obtain ⟨hlen, hadd, hm⟩ := ih _ _ _ _ h
        refine ⟨by simp [payloadValues, hv, hlen], ?_, by simpa using hm⟩
        simp only [payloadValues, hv, List.zip_cons_cons, Cache.addSlots, hs1, bind, Except.bind]
        exact hadd
      · cases h
    · cases h
    · cases h

end SuitVerif.Props.C11
