import SuitVerif.Props.C04
/-! # C09 — signing policy: already-signed action, key match, recursive configuration -/
namespace SuitVerif.Props.C09
open SuitVerif SuitVerif.Sign

/-- already signed + `error`: refused (the CLI writes the output only after signing returned) -/
theorem C09_error (signFn : Bytes → Option Bytes) (t : Nat) (m : List (Cbor × Cbor)) (alg : Alg) (keyId : Int)
    (blocks : List Cbor) (old : Cbor) (hw : wrapperList m = .ok blocks) (hs : firstSign1 blocks = some (some old)) :
    signEnvelope signFn (.tag t (.map m)) alg keyId .error = .error .signerError := by
  unfold signEnvelope
  simp [hw, bind, Except.bind, hs]

/-- already signed + `skip`: the envelope is returned unchanged and the KMS is never consulted -/
theorem C09_skip (signFn : Bytes → Option Bytes) (t : Nat) (m : List (Cbor × Cbor)) (alg : Alg) (keyId : Int)
    (blocks : List Cbor) (old : Cbor) (hw : wrapperList m = .ok blocks) (hs : firstSign1 blocks = some (some old)) :
    signEnvelope signFn (.tag t (.map m)) alg keyId .skip = .ok (.tag t (.map m)) := by
  unfold signEnvelope
  simp [hw, bind, Except.bind, hs, pure, Except.pure]

/-- `remove-old` on a singly signed envelope `[digest, old]`: the result's only signature is the new one -/
theorem C09_remove_old (signFn : Bytes → Option Bytes) (t : Nat) (m : List (Cbor × Cbor)) (alg : Alg) (keyId : Int)
    (d : Bytes) (old digest : Cbor) (out : Cbor)
    (hw : wrapperList m = .ok [.bstr d, old]) (hs : firstSign1 [.bstr d, old] = some (some old))
    (hne : (Cbor.bstr d == old) = false) (hold : (old == old) = true)
    (hw1 : wrapperList (mapSet m (.uint 2) (.bstr (enc (.arr [.bstr d])))) = .ok [.bstr d])
    (hd : loads d = some digest)
    (h : signEnvelope signFn (.tag t (.map m)) alg keyId .removeOld = .ok out) :
    ∃ sig, signFn (sigStructure (enc (protectedMap alg keyId)) digest) = some sig
      ∧ out = .tag t (.map (mapSet (mapSet m (.uint 2) (.bstr (enc (.arr [.bstr d])))) (.uint 2)
          (.bstr (enc (.arr [.bstr d, .bstr (enc (authBlock (enc (protectedMap alg keyId)) sig))]))))) := by
  unfold signEnvelope at h
  have hrm : removeFirst old [.bstr d, old] = [.bstr d] := by simp [removeFirst, hne, hold]
  simp only [hw, bind, Except.bind, hs, attach, pure, Except.pure, hrm, hw1, hd] at h
  cases hsg : signFn (sigStructure (enc (protectedMap alg keyId)) digest) with
  | none => simp [hsg] at h
  | some sig =>
    simp only [hsg, Except.ok.injEq] at h
    exact ⟨sig, rfl, by simpa using h.symm⟩

/-- `append` is not implemented: refused -/
theorem C09_append (signFn : Bytes → Option Bytes) (t : Nat) (m : List (Cbor × Cbor)) (alg : Alg) (keyId : Int)
    (blocks : List Cbor) (old : Cbor) (hw : wrapperList m = .ok blocks) (hs : firstSign1 blocks = some (some old)) :
    signEnvelope signFn (.tag t (.map m)) alg keyId .append = .error .notImplemented := by
  unfold signEnvelope
  simp [hw, bind, Except.bind, hs]

/-- key type vs algorithm: ES256/384/521 need the P-256/384/521 key, EdDSA and HashEdDSA an Ed25519 / Ed448 key;
every other combination is refused -/
theorem C09_keymatch :
    ∀ k a, keyMatches k a = true ↔
      (k = .p256 ∧ a = .es256) ∨ (k = .p384 ∧ a = .es384) ∨ (k = .p521 ∧ a = .es521)
      ∨ ((k = .ed25519 ∨ k = .ed448) ∧ (a = .eddsa ∨ a = .hashEddsa)) := by
  intro k a; cases k <;> cases a <;> simp [keyMatches]

/-- an envelope marked omit-signing without dependencies is returned unchanged, whatever the KMS would do and
without any key -/
theorem C09_omit_leaf (signFn : String → Alg → Bytes → Option Bytes) (fuel : Nat) (t : Nat) (m : List (Cbor × Cbor))
    (alg : Option Alg) (action : Option Action) (inh : Alg) (hf : 0 < fuel) :
    recursiveSign signFn (fuel + 1) (.tag t (.map m)) (.mk true none none alg action []) inh = .ok (.tag t (.map m)) := by
  obtain ⟨f, rfl⟩ : ∃ f, fuel = f + 1 := ⟨fuel - 1, by omega⟩
  simp [recursiveSign, signDeps, bind, Except.bind, pure, Except.pure]

/-- signing is required but no key name / key id is configured: refused -/
theorem C09_key_required (signFn : String → Alg → Bytes → Option Bytes) (fuel : Nat) (env : Cbor)
    (keyId : Option Int) (alg : Option Alg) (action : Option Action) (deps : List (String × Cfg)) (inh : Alg) :
    recursiveSign signFn (fuel + 1) env (.mk false none keyId alg action deps) inh = .error .valueError := by
  simp [recursiveSign]

/-- a named dependency that is absent, is not a byte string or is not an envelope is refused -/
theorem C09_dependency_checked (m : List (Cbor × Cbor)) (name : String) :
    (Cbor.lookup (Cbor.text name) m = none → loadDependency m name = .error .valueError)
    ∧ (∀ v, Cbor.lookup (Cbor.text name) m = some v → (∀ b, v ≠ .bstr b) → loadDependency m name = .error .valueError)
    ∧ (∀ b, Cbor.lookup (Cbor.text name) m = some (.bstr b) → (∀ t v, loads b ≠ some (.tag t v)) →
        loadDependency m name = .error .valueError) := by
  refine ⟨?_, ?_, ?_⟩
  · intro h; simp [loadDependency, h]
  · intro v h hv
    unfold loadDependency
    rw [h]
    cases v <;> simp_all
  · intro b h hb
    unfold loadDependency
    rw [h]
    simp only
    cases hl : loads b with
    | none => rfl
    | some x => cases x <;> simp_all

/-- what is accepted as a dependency is an envelope: CBOR tag 107 of a map (a tagged array, another tag number, any other item is refused -
also under omit-signing, where nothing else would look at it) -/
theorem C09_dependency_is_envelope (m : List (Cbor × Cbor)) (name : String) (dep : Cbor) (h : loadDependency m name = .ok dep) :
    ∃ b mm, Cbor.lookup (Cbor.text name) m = some (.bstr b) ∧ loads b = some (.tag 107 (.map mm)) ∧ dep = .tag 107 (.map mm) := by
  unfold loadDependency at h
  split at h
  · cases h
  · rename_i b hb
    split at h
    · cases h
    · rename_i mm hl
      simp only [Except.ok.injEq] at h
      exact ⟨b, mm, hb, hl, h.symm⟩
    · cases h
  · cases h

/-! ### nothing but the wrapper and the named dependencies changes -/

/-- keys that are "unrelated" to `k'` for the purpose of lookup: anything equal to `k'` is different from `k` -/
def Unrelated (k' k : Cbor) : Prop := ∀ x : Cbor, (x == k') = true → (x == k) = false

theorem lookup_replace (m : List (Cbor × Cbor)) (k' k v : Cbor) (hu : Unrelated k' k) :
    Cbor.lookup k (m.map (fun e => if e.1 == k' then (e.1, v) else e)) = Cbor.lookup k m := by
  induction m with
  | nil => rfl
  | cons e rest ih =>
    simp only [List.map_cons, Cbor.lookup]
    by_cases hc : (e.1 == k') = true
    · have := hu e.1 hc
      simp only [hc, if_true, this, Bool.false_eq_true, if_false]
      exact ih
    · simp only [hc, if_false, Bool.false_eq_true]
      split
      · rfl
      · exact ih

theorem lookup_append_other (m : List (Cbor × Cbor)) (k' k v : Cbor) (hk : (k' == k) = false) :
    Cbor.lookup k (m ++ [(k', v)]) = Cbor.lookup k m := by
  induction m with
  | nil => simp [Cbor.lookup, hk]
  | cons e rest ih =>
    simp only [List.cons_append, Cbor.lookup]
    split
    · rfl
    · exact ih

theorem lookup_mapSet_other (m : List (Cbor × Cbor)) (k' k v : Cbor) (hu : Unrelated k' k) (hk : (k' == k) = false) :
    Cbor.lookup k (mapSet m k' v) = Cbor.lookup k m := by
  unfold mapSet
  split
  · exact lookup_replace m k' k v hu
  · exact lookup_append_other m k' k v hk

theorem unrelated_text_uint (name : String) (n : Nat) : Unrelated (Cbor.text name) (.uint n) := by
  intro x hx
  cases x <;> simp_all [BEq.beq, Cbor.beq, Cbor.text]

theorem unrelated_uint (a b : Nat) (h : a ≠ b) : Unrelated (.uint a) (.uint b) := by
  intro x hx
  cases x <;> simp_all [BEq.beq, Cbor.beq]

theorem attach_keeps (signFn : Bytes → Option Bytes) (t : Nat) (m1 : List (Cbor × Cbor)) (alg : Alg) (keyId : Int)
    (out : Cbor) (n : Nat) (hn : n ≠ 2) (h : attach signFn t m1 alg keyId = .ok out) :
    ∃ m', out = .tag t (.map m') ∧ Cbor.lookup (.uint n) m' = Cbor.lookup (.uint n) m1 := by
  have hu : Unrelated (.uint 2) (.uint n) := unrelated_uint 2 n (fun e => hn e.symm)
  have hk : ((Cbor.uint 2) == (Cbor.uint n)) = false := by
    simp only [BEq.beq, Cbor.beq]; simpa using (fun e => hn e.symm)
  unfold attach at h
  simp only [bind, Except.bind] at h
  cases hw : wrapperList m1 with
  | error e => simp [hw] at h
  | ok blocks1 =>
    simp only [hw] at h
    cases blocks1 with
    | nil => simp at h
    | cons b0 tail =>
      cases b0 with
      | bstr d =>
        simp only at h
        cases hl : loads d with
        | none => simp [hl] at h
        | some digest =>
          simp only [hl, pure, Except.pure] at h
          cases hs : signFn (sigStructure (enc (protectedMap alg keyId)) digest) with
          | none => simp [hs] at h
          | some sig =>
            simp only [hs, Except.ok.injEq] at h
            exact ⟨_, h.symm, lookup_mapSet_other m1 _ _ _ hu hk⟩
      | _ => simp at h

/-- signing one level touches the authentication wrapper only: every other integer-keyed member, in particular the
manifest (key 3), is the same value -/
theorem signEnvelope_keeps (signFn : Bytes → Option Bytes) (t : Nat) (m : List (Cbor × Cbor)) (alg : Alg) (keyId : Int)
    (action : Action) (out : Cbor) (n : Nat) (hn : n ≠ 2)
    (h : signEnvelope signFn (.tag t (.map m)) alg keyId action = .ok out) :
    ∃ m', out = .tag t (.map m') ∧ Cbor.lookup (.uint n) m' = Cbor.lookup (.uint n) m := by
  have hu : Unrelated (.uint 2) (.uint n) := unrelated_uint 2 n (fun e => hn e.symm)
  have hk : ((Cbor.uint 2) == (Cbor.uint n)) = false := by
    simp only [BEq.beq, Cbor.beq]; simpa using (fun e => hn e.symm)
  unfold signEnvelope at h
  cases hw : wrapperList m with
  | error e => simp [hw, bind, Except.bind] at h
  | ok blocks =>
    simp only [hw, bind, Except.bind] at h
    cases hf : firstSign1 blocks with
    | none => simp [hf] at h
    | some fo =>
      cases fo with
      | none =>
        simp only [hf] at h
        exact attach_keeps signFn t m alg keyId out n hn h
      | some old =>
        cases action with
        | error => simp [hf] at h
        | append => simp [hf] at h
        | skip =>
          simp only [hf, pure, Except.pure, Except.ok.injEq] at h
          exact ⟨m, h.symm, rfl⟩
        | removeOld =>
          simp only [hf] at h
          obtain ⟨m', ho, hl⟩ := attach_keeps signFn t _ alg keyId out n hn h
          exact ⟨m', ho, by rw [hl, lookup_mapSet_other _ _ _ _ hu hk]⟩

/-- re-embedding signed dependencies changes text-keyed members only -/
theorem signDeps_keeps (signFn : String → Alg → Bytes → Option Bytes) (n : Nat) :
    ∀ (fuel : Nat) (m0 m m' : List (Cbor × Cbor)) (deps : List (String × Cfg)) (a : Alg),
      signDeps signFn fuel m0 m deps a = .ok m' → Cbor.lookup (.uint n) m' = Cbor.lookup (.uint n) m := by
  intro fuel
  induction fuel with
  | zero => intro m0 m m' deps a h; simp [signDeps] at h
  | succ fuel ih =>
    intro m0 m m' deps a h
    cases deps with
    | nil => simp only [signDeps, Except.ok.injEq] at h; rw [h]
    | cons dc rest =>
      obtain ⟨name, cfg⟩ := dc
      simp only [signDeps, bind, Except.bind] at h
      cases hl : loadDependency m0 name with
      | error e => simp [hl] at h
      | ok dep =>
        simp only [hl] at h
        cases hr : recursiveSign signFn fuel dep cfg a with
        | error e => simp [hr] at h
        | ok signed =>
          simp only [hr] at h
          rw [ih _ _ _ _ _ h]
          exact lookup_mapSet_other m _ _ _ (unrelated_text_uint name n)
            (by simp [BEq.beq, Cbor.beq, Cbor.text])

/-- **Recursive signing leaves every manifest byte-identical**: at the level it is applied to, the value of envelope
key 3 (and of every integer key other than 2) of the output is that of the input; the statement applies again to
every dependency, whose signed form is the output of the same function. -/
theorem C09_manifest_untouched (signFn : String → Alg → Bytes → Option Bytes) (fuel : Nat) (t : Nat)
    (m : List (Cbor × Cbor)) (cfg : Cfg) (inh : Alg) (out : Cbor) (n : Nat) (hn : n ≠ 2)
    (h : recursiveSign signFn fuel (.tag t (.map m)) cfg inh = .ok out) :
    ∃ m', out = .tag t (.map m') ∧ Cbor.lookup (.uint n) m' = Cbor.lookup (.uint n) m := by
  cases fuel with
  | zero => simp [recursiveSign] at h
  | succ fuel =>
    obtain ⟨omitSig, keyName, keyId, alg, action, deps⟩ := cfg
    simp only [recursiveSign] at h
    split at h
    · cases h
    · split at h
      · cases h
      · simp only [bind, Except.bind] at h
        cases hd : signDeps signFn fuel m m deps (alg.getD inh) with
        | error e => simp [hd] at h
        | ok m1 =>
          simp only [hd] at h
          have h1 := signDeps_keeps signFn n fuel m m m1 deps _ hd
          split at h
          · simp only [pure, Except.pure, Except.ok.injEq] at h
            exact ⟨m1, h.symm, h1⟩
          · obtain ⟨m', ho, hl⟩ := signEnvelope_keeps _ t m1 _ _ _ out n hn h
            exact ⟨m', ho, by rw [hl, h1]⟩

end SuitVerif.Props.C09
