import SuitVerif.Registry
import SuitVerif.Generated.Schema
/-! # C08 — symbolic names and registry codes are in one-to-one correspondence -/
namespace SuitVerif.Props.C08
open SuitVerif

/-- every registered (key space, name, code) is what the code defines - checked against the tables re-extracted
from the live classes on this run -/
theorem C08_registry_present :
    Registry.spaces.all (fun sp => sp.2.all (fun e => (Generated.schema.space sp.1).contains e)) = true := by
  decide +kernel

/-- no two names of a key space share a code and no name occurs twice - for *every* vocabulary-bearing class of
the extracted schema (also for names the registry does not know) -/
theorem C08_nodup :
    Generated.schema.classes.all (fun c => match c.2.vocab with
      | some es => nodupB (es.map (·.1)) && nodupB (es.map (·.2))
      | none => true) = true := by
  decide +kernel

/-- CBOR tags 107, 18 and 96 mark the envelope, COSE_Sign1 and COSE_Encrypt -/
theorem C08_tags : Registry.tags.all (fun t => Generated.schema.tagOf t.1 == some t.2) = true := by
  decide +kernel

/-- digest lengths: SHA-256/384/512 and SHAKE128 → 16, SHAKE256 → 32 bytes -/
theorem C08_hash_lengths : Generated.schema.hashes = Registry.hashLengths := by decide +kernel

theorem nodupB_contains {α} [BEq α] [LawfulBEq α] (x : α) (xs : List α) (h : nodupB (x :: xs) = true) :
    xs.contains x = false ∧ nodupB xs = true := by
  simpa [nodupB] using h

/-- generic: in a key space without repeated codes, decoding the code of an entry gives back its name … -/
theorem C08_decode_encode (es : List (String × Int)) (hc : nodupB (es.map (·.2)) = true)
    (e : String × Int) (he : e ∈ es) : decodeKey es e.2 = some e.1 := by
  induction es with
  | nil => simp at he
  | cons x xs ih =>
    simp only [List.map_cons] at hc
    obtain ⟨hx, hxs⟩ := nodupB_contains _ _ hc
    simp only [decodeKey, List.find?]
    rcases List.mem_cons.mp he with h | h
    · subst h; simp
    · have hne : (x.2 == e.2) = false := by
        cases hb : (x.2 == e.2) with
        | false => rfl
        | true =>
          exfalso
          have : x.2 = e.2 := by simpa using hb
          have hm : e.2 ∈ xs.map (·.2) := List.mem_map.mpr ⟨e, h, rfl⟩
          rw [← this] at hm
          have : (xs.map (·.2)).contains x.2 = true := by simpa using hm
          rw [this] at hx; cases hx
      simp only [hne]
      exact ih hxs h

/-- … and in a key space without repeated names, encoding the name of an entry gives its code -/
theorem C08_encode_name (es : List (String × Int)) (hn : nodupB (es.map (·.1)) = true)
    (e : String × Int) (he : e ∈ es) : encodeKey es e.1 = some e.2 := by
  induction es with
  | nil => simp at he
  | cons x xs ih =>
    simp only [List.map_cons] at hn
    obtain ⟨hx, hxs⟩ := nodupB_contains _ _ hn
    simp only [encodeKey, List.find?]
    rcases List.mem_cons.mp he with h | h
    · subst h; simp
    · have hne : (x.1 == e.1) = false := by
        cases hb : (x.1 == e.1) with
        | false => rfl
        | true =>
          exfalso
          have : x.1 = e.1 := by simpa using hb
          have hm : e.1 ∈ xs.map (·.1) := List.mem_map.mpr ⟨e, h, rfl⟩
          rw [← this] at hm
          have : (xs.map (·.1)).contains x.1 = true := by simpa using hm
          rw [this] at hx; cases hx
      simp only [hne]
      exact ih hxs h

/-- a name that is not in a key space is rejected there (no code) -/
theorem C08_foreign_rejected (es : List (String × Int)) (name : String) (h : name ∉ es.map (·.1)) :
    encodeKey es name = none := by
  unfold encodeKey
  have : es.find? (fun e => e.1 == name) = none := by
    rw [List.find?_eq_none]
    intro e he hb
    have : e.1 = name := by simpa using hb
    exact h (List.mem_map.mpr ⟨e, he, this⟩)
  simp [this]

/-- a code that is not in a key space is rejected there (no name) -/
theorem C08_foreign_code_rejected (es : List (String × Int)) (code : Int) (h : code ∉ es.map (·.2)) :
    decodeKey es code = none := by
  unfold decodeKey
  have : es.find? (fun e => e.2 == code) = none := by
    rw [List.find?_eq_none]
    intro e he hb
    have : e.2 = code := by simpa using hb
    exact h (List.mem_map.mpr ⟨e, he, this⟩)
  simp [this]

end SuitVerif.Props.C08
