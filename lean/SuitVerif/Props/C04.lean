import SuitVerif.Sign
import SuitVerif.CborProofs
/-! # C04 — signing attaches a verifiable COSE_Sign1 and changes nothing else

For every signature primitive `signFn` (the KMS is a parameter of the model). -/
namespace SuitVerif.Props.C04
open SuitVerif SuitVerif.Sign

/-- **fixed-width r||s.** Whenever the raw ECDSA signature is produced it is exactly `2w` bytes and its halves are
`r` and `s` - leading zero bytes are the general case of the statement, not a sample - and it is produced exactly
when both values fit `w` bytes. -/
theorem C04_rs_fixed (w r s : Nat) (b : Bytes) (h : rsEncode w r s = some b) :
    b.length = 2 * w ∧ ofBe (b.take w) = r ∧ ofBe (b.drop w) = s := by
  unfold rsEncode at h
  split at h
  · rename_i hlt
    simp only [Option.some.injEq] at h
    subst h
    have l1 := beBytes_length w r
    refine ⟨by simp [beBytes_length]; omega, ?_, ?_⟩
    · rw [List.take_left' l1]; exact ofBe_beBytes w r hlt.1
    · rw [List.drop_left' l1]; exact ofBe_beBytes w s hlt.2
  · cases h

theorem C04_rs_total (w r s : Nat) (hr : r < 256 ^ w) (hs : s < 256 ^ w) : (rsEncode w r s).isSome = true := by
  simp [rsEncode, hr, hs]

/-- the five COSE algorithm identifiers -/
theorem C04_cose_ids : Alg.es256.cose = -7 ∧ Alg.es384.cose = -35 ∧ Alg.es521.cose = -36 ∧ Alg.eddsa.cose = -8
    ∧ Alg.hashEddsa.cose = -65537 := ⟨rfl, rfl, rfl, rfl, rfl⟩

theorem ofInt_wf (i : Int) (h : -(2 ^ 64 : Int) ≤ i ∧ i < 2 ^ 64) : (Cbor.ofInt i).wf = true := by
  unfold Cbor.ofInt
  split
  · simp only [Cbor.wf, decide_eq_true_eq]; omega
  · simp only [Cbor.wf, decide_eq_true_eq]; omega

/-- **protected header.** It is the shortest-form map `{1: COSE alg, 4: bstr .cbor key-id}`; reading it back with the
strict reader gives the algorithm identifier and, inside the byte string, the key identifier - for every key
identifier in [-2^64, 2^64). -/
theorem C04_protected (alg : Alg) (keyId : Int) (h : -(2 ^ 64 : Int) ≤ keyId ∧ keyId < 2 ^ 64) :
    decodeStrict (enc (protectedMap alg keyId))
      = some (.map [(.uint 1, Cbor.ofInt alg.cose), (.uint 4, .bstr (enc (Cbor.ofInt keyId)))])
    ∧ decodeStrict (enc (Cbor.ofInt keyId)) = some (Cbor.ofInt keyId) := by
  have hk := ofInt_wf keyId h
  have ha : (Cbor.ofInt alg.cose).wf = true := by cases alg <;> decide
  have hlen : (enc (Cbor.ofInt keyId)).length < 2 ^ 64 := by
    have : (enc (Cbor.ofInt keyId)).length ≤ 9 := by
      unfold Cbor.ofInt
      split <;> (simp only [enc, head]; (repeat' split) <;> simp [beBytes_length])
    omega
  refine ⟨decodeStrict_enc _ ?_, decodeStrict_enc _ hk⟩
  simp [protectedMap, Cbor.wf, wfPairs, ha, hlen]

/-- replacing the value under an existing key keeps every other member and the order of all members -/
theorem mapSet_present (m : List (Cbor × Cbor)) (k v : Cbor) (h : m.any (fun e => e.1 == k) = true) :
    mapSet m k v = m.map (fun e => if e.1 == k then (e.1, v) else e) := by
  simp [mapSet, h]

theorem mapSet_keys (m : List (Cbor × Cbor)) (k v : Cbor) (h : m.any (fun e => e.1 == k) = true) :
    (mapSet m k v).map (·.1) = m.map (·.1) := by
  rw [mapSet_present m k v h, List.map_map]
  apply List.map_congr_left
  intro e _
  simp only [Function.comp]
  split <;> rfl

/-- **Exactly one block is appended and nothing else changes.** For an envelope `tag t {…}` whose wrapper holds no
COSE_Sign1 yet, every action and every signature primitive: the output is the same tag over the same map in which only
the value of key 2 is replaced, by the same wrapper list plus one element `bstr .cbor #6.18([protected, {}, nil, sig])`
where `protected = {1: alg, 4: bstr .cbor keyId}` and `sig` is the primitive applied to the Sig_structure
`["Signature1", protected, h'', bstr .cbor digest]` of the envelope's own digest. -/
theorem C04_appended (signFn : Bytes → Option Bytes) (t : Nat) (m : List (Cbor × Cbor)) (alg : Alg) (keyId : Int)
    (action : Action) (out : Cbor) (blocks : List Cbor) (d : Bytes) (rest : List Cbor) (digest : Cbor)
    (hw : wrapperList m = .ok blocks) (hb : blocks = .bstr d :: rest) (hd : loads d = some digest)
    (hns : firstSign1 blocks = some none)
    (h : signEnvelope signFn (.tag t (.map m)) alg keyId action = .ok out) :
    ∃ sig, signFn (sigStructure (enc (protectedMap alg keyId)) digest) = some sig
      ∧ out = .tag t (.map (mapSet m (.uint 2)
          (.bstr (enc (.arr (blocks ++ [.bstr (enc (authBlock (enc (protectedMap alg keyId)) sig))])))))) := by
  unfold signEnvelope at h
  simp only [hw, bind, Except.bind, hns, attach, pure, Except.pure] at h
  subst hb
  simp only [hd] at h
  cases hs : signFn (sigStructure (enc (protectedMap alg keyId)) digest) with
  | none => simp [hs] at h
  | some sig =>
    simp only [hs, Except.ok.injEq] at h
    exact ⟨sig, rfl, h.symm⟩

/-- **The block verifies.** If the signature primitive is `sign sk` of a scheme with `verify pk msg (sign sk msg)`,
the appended signature verifies under `pk` over the Sig_structure built from the block's own protected header and
the envelope's digest. -/
theorem C04_verifies {SK PK : Type} (sign : SK → Bytes → Bytes) (verify : PK → Bytes → Bytes → Bool) (sk : SK) (pk : PK)
    (hcorrect : ∀ msg, verify pk msg (sign sk msg) = true)
    (t : Nat) (m : List (Cbor × Cbor)) (alg : Alg) (keyId : Int) (action : Action) (out : Cbor)
    (blocks : List Cbor) (d : Bytes) (rest : List Cbor) (digest : Cbor)
    (hw : wrapperList m = .ok blocks) (hb : blocks = .bstr d :: rest) (hd : loads d = some digest)
    (hns : firstSign1 blocks = some none)
    (h : signEnvelope (fun msg => some (sign sk msg)) (.tag t (.map m)) alg keyId action = .ok out) :
    ∃ sig, out = .tag t (.map (mapSet m (.uint 2)
          (.bstr (enc (.arr (blocks ++ [.bstr (enc (authBlock (enc (protectedMap alg keyId)) sig))]))))))
      ∧ verify pk (sigStructure (enc (protectedMap alg keyId)) digest) sig = true := by
  obtain ⟨sig, hs, ho⟩ := C04_appended _ t m alg keyId action out blocks d rest digest hw hb hd hns h
  simp only [Option.some.injEq] at hs
  exact ⟨sig, ho, by rw [← hs]; exact hcorrect _⟩

/-- a refusing KMS (wrong key type, missing key) yields an error, never a partially signed envelope -/
theorem C04_refused (t : Nat) (m : List (Cbor × Cbor)) (alg : Alg) (keyId : Int) (action : Action)
    (blocks : List Cbor) (d : Bytes) (rest : List Cbor) (digest : Cbor)
    (hw : wrapperList m = .ok blocks) (hb : blocks = .bstr d :: rest) (hd : loads d = some digest)
    (hns : firstSign1 blocks = some none) :
    signEnvelope (fun _ => none) (.tag t (.map m)) alg keyId action = .error .valueError := by
  unfold signEnvelope
  subst hb
  simp [hw, bind, Except.bind, hns, attach, pure, Except.pure, hd]

end SuitVerif.Props.C04
