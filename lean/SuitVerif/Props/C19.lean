import SuitVerif.Template
/-! # C19 — NCS templates yield consistent dependency wiring for every image set

Theorems about the template model (`Template.root`, `Template.top`), for all names, versions and child names and all
2^3 presence combinations of the three images. The link from the Jinja files to the model is the correspondence on
the rendered and loaded document over the complete configuration space (harness/props/c19.py). -/
namespace SuitVerif.Props.C19
open SuitVerif SuitVerif.Template

/-- the number of declared components: the candidate manifest plus one installed manifest per present image -/
theorem C19_component_count (c : RootCfg) : c.components.length = c.images.length + 1 := by
  simp [RootCfg.components, RootCfg.images] <;> omega

/-- **Every component index used by a command refers to a declared component**: the indices of the shared sequence
(`component_list`), of validate / invoke (`component_list_without_top`) and the literal 0 of install and
candidate-verification are all below the number of declared components -/
theorem C19_indices_declared (c : RootCfg) :
    (∀ i ∈ c.componentList, i < c.components.length)
    ∧ (∀ i ∈ c.withoutTop, i < c.components.length)
    ∧ 0 < c.components.length := by
  rw [C19_component_count]
  refine ⟨?_, ?_, by omega⟩
  · intro i hi
    simp only [RootCfg.componentList, List.mem_map, List.mem_range] at hi
    obtain ⟨k, hk, rfl⟩ := hi
    omega
  · intro i hi
    simp only [RootCfg.withoutTop, List.mem_map, List.mem_range] at hi
    obtain ⟨k, hk, rfl⟩ := hi
    simp only [RootCfg.images, List.length_append] at *
    omega

/-- every declared component is a candidate- or installed-manifest component … -/
theorem C19_components_are_manifests (c : RootCfg) :
    ∀ comp ∈ c.components, ∃ rest, comp = .list (.str "CAND_MFST" :: rest) ∨ comp = .list (.str "INSTLD_MFST" :: rest) := by
  intro comp h
  simp only [RootCfg.components, List.mem_append, List.mem_map, List.mem_singleton] at h
  rcases h with ((h | ⟨_, _, h⟩) | ⟨_, _, h⟩) | ⟨_, _, h⟩
  · exact ⟨_, Or.inl h⟩
  · exact ⟨_, Or.inr h.symm⟩
  · exact ⟨_, Or.inr h.symm⟩
  · exact ⟨_, Or.inr h.symm⟩

/-- … and the declared dependencies are exactly index 0 and the indices of `component_list`, all of them declared -/
theorem C19_dependencies_are_components (c : RootCfg) :
    ∀ i ∈ (0 :: c.componentList), i < c.components.length := by
  intro i hi
  rcases List.mem_cons.mp hi with h | h
  · subst h; exact (C19_indices_declared c).2.2
  · exact (C19_indices_declared c).1 i h

/-- the `#name` URIs fetched by the install / candidate-verification blocks -/
def fetchedUris (c : RootCfg) : List String := c.images.map (fun n => "#" ++ n)

/-- the names of the integrated dependencies of the root description -/
def integratedNames (c : RootCfg) : List String := c.images.map (fun n => "#" ++ n)

/-- **Every fetched '#name' URI has an integrated dependency of that name** (and vice versa), whose file is the one
whose manifest digest the candidate-verification block verifies: both are `artifacts ++ name ++ ".suit"` -/
theorem C19_fetch_has_dependency (c : RootCfg) :
    fetchedUris c = integratedNames c
    ∧ ∀ n ∈ c.images,
        (verifyBlock c.artifacts n).head? = some (.dict [("suit-directive-override-parameters", .dict [
          ("suit-parameter-uri", .str ("#" ++ n)),
          ("suit-parameter-image-digest", .dict [("suit-digest-algorithm-id", .str "cose-alg-sha-256"),
            ("suit-digest-bytes", .dict [("envelope", .str (c.artifacts ++ n ++ ".suit"))])])])])
        ∧ ("#" ++ n, Obj.str (c.artifacts ++ n ++ ".suit")) ∈ c.images.map (fun n => ("#" ++ n, Obj.str (c.artifacts ++ n ++ ".suit"))) := by
  refine ⟨rfl, ?_⟩
  intro n hn
  exact ⟨rfl, List.mem_map.mpr ⟨n, hn, rfl⟩⟩

/-- **Installed-manifest class ids are those of the configured names**: radio → (radVendor, radClass),
application → (appVendor, appClass), top → the fixed Nordic top class, the root manifest → (rootVendor, rootClass) -/
theorem C19_class_ids (c : RootCfg) (r a t : String) (hr : c.radio = some r) (ha : c.application = some a) (ht : c.top = some t) :
    c.components = [.list [.str "CAND_MFST", .int 0], installed c.radVendor c.radClass, installed c.appVendor c.appClass,
      installed "nordicsemi.com" "nRF54H20_nordic_top"] := by
  simp [RootCfg.components, hr, ha, ht]

/-- all 8 presence combinations at once: component k (k ≥ 1) is the installed manifest of the k-th present image -/
theorem C19_component_order (c : RootCfg) :
    c.components.drop 1 =
      (c.radio.toList.map (fun _ => installed c.radVendor c.radClass))
      ++ (c.application.toList.map (fun _ => installed c.appVendor c.appClass))
      ++ (c.top.toList.map (fun _ => installed "nordicsemi.com" "nRF54H20_nordic_top")) := by
  simp [RootCfg.components]

/-- top template: indices 0, 1, 2 against three declared components; fetched URIs = integrated dependencies -/
theorem C19_top (c : TopCfg) :
    ([c.secdom, c.sysctrl].map (fun n => "#" ++ n)) = ([c.secdom, c.sysctrl].map (fun n => ("#" ++ n, Obj.str (c.artifacts ++ n ++ ".suit")))).map (·.1)
    ∧ (3 : Nat) = [Obj.list [.str "CAND_MFST", .int 0], installed "nordicsemi.com" "nRF54H20_sec", installed "nordicsemi.com" "nRF54H20_sys"].length := by
  simp

end SuitVerif.Props.C19
