import SuitVerif.Mpi
import SuitVerif.IHexText
/-! # C12 — MPI records and merged MPI areas have the exact device layout -/
namespace SuitVerif.Props.C12
open SuitVerif SuitVerif.Mpi SuitVerif.IHex

/-- The record: version 1, three policy bytes, twelve 0xFF, vendor UUID, class UUID, padded with 0xFF to
`size`; written at `address` and nowhere else.  For every SHA-1, every name, address, size. -/
theorem C12_record (sha1 : Bytes → Bytes) (vendor cls : Bytes) (address size : Nat) (dp iu : Bool)
    (sv : SigPolicy) (img : Image) (h : generate sha1 vendor cls address size dp iu sv = .ok img) :
    ∃ svb, sigByte sv = .ok svb ∧
      img = [(address,
        ([1, policyByte dp, policyByte iu, svb] ++ List.replicate 12 0xFF
          ++ Uuid.vid sha1 vendor ++ Uuid.cid sha1 vendor cls)
        ++ List.replicate (size - (16 + (Uuid.vid sha1 vendor).length + (Uuid.cid sha1 vendor cls).length)) 0xFF)] := by
  unfold generate at h
  cases hs : sigByte sv with
  | error e => simp [hs, bind, Except.bind] at h
  | ok svb =>
    simp only [hs, bind, Except.bind, pure, Except.pure, Except.ok.injEq] at h
    refine ⟨svb, rfl, ?_⟩
    rw [← h]
    simp [place, padFF, recordCore, Uuid.vid, Uuid.cid]
    omega

/-- policy bytes: 1 = off / none, 2 = on / update, 3 = update-and-boot; anything else is rejected -/
theorem C12_policy_table :
    policyByte false = 1 ∧ policyByte true = 2
    ∧ sigByte .none = .ok 1 ∧ sigByte .update = .ok 2 ∧ sigByte .updateAndBoot = .ok 3
    ∧ sigByte .other = .error .generatorError := ⟨rfl, rfl, rfl, rfl, rfl, rfl⟩

/-- with 16-byte identifiers (every SHA-1 of ≥ 16 bytes) and a reserved size ≥ 48 the record is exactly `size` long -/
theorem C12_record_length (v c : Bytes) (dp iu : Bool) (svb : UInt8) (size : Nat)
    (hv : v.length = 16) (hc : c.length = 16) (hsz : 48 ≤ size) :
    (padFF size (recordCore v c dp iu svb)).length = size := by
  simp [padFF, recordCore, hv, hc]; omega

theorem uuid5_length (sha1 : Bytes → Bytes) (ns name : Bytes) (h : 16 ≤ (sha1 (ns ++ name)).length) :
    (Uuid.uuid5 sha1 ns name).length = 16 := by
  simp [Uuid.uuid5, Uuid.setVersion]; omega

/-- The merged file is the reserved area followed immediately by its digest, at `address`: the area is
`size` bytes long, holds every input byte at its original address and 0xFF elsewhere. For every function
substituted for SHA-256. -/
theorem C12_merge (sha256 : Bytes → Bytes) (address size : Nat) (inputs : List Image) (img : Image)
    (h : merge sha256 address size inputs = .ok img) :
    ∃ merged, mergeInputs address size [] (inputs.map nonEmptySegs) = .ok merged
      ∧ img = [(address, area address size merged ++ sha256 (area address size merged))]
      ∧ (area address size merged).length = size
      ∧ ∀ i, i < size → (area address size merged)[i]? = some ((Image.get merged (address + i)).getD 0xFF) := by
  unfold merge at h
  cases hm : mergeInputs address size [] (inputs.map nonEmptySegs) with
  | error e => simp [hm, bind, Except.bind] at h
  | ok merged =>
    simp only [hm, bind, Except.bind, pure, Except.pure, Except.ok.injEq] at h
    refine ⟨merged, rfl, by rw [← h]; rfl, by simp [area], ?_⟩
    intro i hi
    simp [area, hi]

/-- an input reaching outside the area is rejected -/
theorem C12_reject_outside (address size : Nat) (acc img : Image) (rest : List Image) (lo hi : Nat)
    (hlo : minAddr img = some lo) (hhi : maxAddr img = some hi)
    (hout : lo < address ∨ hi > address + size - 1) :
    mergeInputs address size acc (img :: rest) = .error .generatorError := by
  simp [mergeInputs, hlo, hhi, hout]

/-- an input overlapping what has been merged so far is rejected -/
theorem C12_reject_overlap (address size : Nat) (acc img : Image) (rest : List Image) (lo hi : Nat)
    (hlo : minAddr img = some lo) (hhi : maxAddr img = some hi)
    (hin : ¬ (lo < address ∨ hi > address + size - 1)) (hov : overlaps acc img = true) :
    mergeInputs address size acc (img :: rest) = .error .overlap := by
  simp [mergeInputs, hlo, hhi, hin, hov]

/-- accepted inputs are all kept: merging never drops or moves a segment -/
theorem C12_merge_keeps (address size : Nat) (inputs : List Image) :
    ∀ (acc merged : Image), mergeInputs address size acc inputs = .ok merged → merged = acc ++ inputs.flatten := by
  induction inputs with
  | nil => intro acc merged h; simp [mergeInputs] at h; simp [h]
  | cons img rest ih =>
    intro acc merged h
    simp only [mergeInputs] at h
    split at h
    · split at h
      · cases h
      · split at h
        · cases h
        · have := ih _ _ h
          simp [this, List.append_assoc]
    · cases h

/-- model ⟹ spec: with 16-byte identifiers the generated image satisfies `checkRecord` -/
theorem C12_record_checks (sha1 : Bytes → Bytes) (vendor cls : Bytes) (address size : Nat) (dp iu : Bool)
    (sv : SigPolicy) (img : Image) (h : generate sha1 vendor cls address size dp iu sv = .ok img)
    (hv : (Uuid.vid sha1 vendor).length = 16) (hc : (Uuid.cid sha1 vendor cls).length = 16) :
    ∃ svb, sigByte sv = .ok svb ∧
      checkRecord img (Uuid.vid sha1 vendor) (Uuid.cid sha1 vendor cls) address size dp iu svb = true := by
  obtain ⟨svb, hs, himg⟩ := C12_record sha1 vendor cls address size dp iu sv img h
  refine ⟨svb, hs, ?_⟩
  subst himg
  generalize Uuid.vid sha1 vendor = v at *
  generalize Uuid.cid sha1 vendor cls = c at *
  match v, c, hv, hc with
  | [v0,v1,v2,v3,v4,v5,v6,v7,v8,v9,v10,v11,v12,v13,v14,v15],
    [c0,c1,c2,c3,c4,c5,c6,c7,c8,c9,c10,c11,c12,c13,c14,c15], _, _ =>
    rw [checkRecord, canon_single _ _ (by simp)]
    simp
    omega

/-- model ⟹ spec for merge: whenever the model accepts the inputs (given without empty segments), the
output satisfies `checkMerge` -/
theorem C12_merge_checks (sha256 : Bytes → Bytes) (address size : Nat) (inputs : List Image) (img : Image)
    (hne : inputs.map nonEmptySegs = inputs) (h : merge sha256 address size inputs = .ok img) :
    checkMerge sha256 img address size inputs = true := by
  obtain ⟨merged, hm, himg, _, _⟩ := C12_merge sha256 address size inputs img h
  rw [hne] at hm
  have := C12_merge_keeps address size inputs [] merged hm
  simp only [List.nil_append] at this
  subst this
  subst himg
  simp [checkMerge]

/-- **file level**: the text of the hex file `mpi generate` writes (writer model `IHex.writeText` of the third-party `intelhex` writer) reads back,
with the strict reader, as exactly the record at the given address - for every address, reserved size and name with the record ending below 2^32 -/
theorem C12_record_file (sha1 : Bytes → Bytes) (vendor cls : Bytes) (address size : Nat) (dp iu : Bool)
    (sv : SigPolicy) (img : Image) (h : generate sha1 vendor cls address size dp iu sv = .ok img) :
    ∃ rec, img = [(address, rec)] ∧ rec ≠ [] ∧ (address + rec.length ≤ 2 ^ 32 → IHex.read (IHex.writeText address rec) = some img) := by
  obtain ⟨svb, _, himg⟩ := C12_record sha1 vendor cls address size dp iu sv img h
  refine ⟨_, himg, by simp, fun hb => ?_⟩
  rw [IHex.read_writeText address _ hb, himg]
  simp

/-- **file level, merged area**: the text of the file for any canonical image (the merged area with its digest is one block; inputs with gaps are
several) reads back as exactly that image -/
theorem C12_area_file (c : Image) (hsep : IHex.Separated c) (hb : ∀ s ∈ c, s.1 + s.2.length ≤ 2 ^ 32) :
    IHex.read (IHex.writeImageText c) = some c := IHex.read_writeImageText c hsep hb

end SuitVerif.Props.C12
