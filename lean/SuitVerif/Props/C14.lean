import SuitVerif.Props.C06
/-! # C14 — every encryption uses a fresh IV (logic part; that the OS entropy source does not repeat is runtime)

The model: `os.urandom(12)` reads the next 12 bytes of an entropy stream; the only state carried from one
`encrypt-and-generate` call to the next is the position in that stream. -/
namespace SuitVerif.Props.C14
open SuitVerif SuitVerif.Encrypt SuitVerif.Props.C06

/-- the IV a consumer reads out of published artifacts -/
def ivOf (a : Artifacts) : Option Bytes := (readInfo a.encryptionInfo).map (·.iv)

theorem window_length (ent : Nat → UInt8) (pos : Nat) : (window ent pos).length = 12 := by simp [window]

/-- **The published IV is the nonce of this call, and it is the one the ciphertext was produced with**: the
encryption info of a call holds, under key 5, the 12 bytes drawn from the stream by *this* call, and those are the
nonce handed to AES-GCM. -/
theorem C14_iv_from_this_call (gcm : GcmEnc) (ent : Nat → UInt8) (key : Bytes) (pos : Nat) (fw : Bytes) (keyId : Int)
    (hk : -(2 ^ 64 : Int) ≤ keyId ∧ keyId < 2 ^ 64) :
    ivOf (step ⟨Generated.aadLiteral⟩ gcm ent key pos fw keyId).2 = some (window ent pos)
    ∧ (step ⟨Generated.aadLiteral⟩ gcm ent key pos fw keyId).2
        = generate (window ent pos ++ (gcm key (window ent pos) Generated.aadLiteral fw).2
            ++ (gcm key (window ent pos) Generated.aadLiteral fw).1) none keyId (-6)
    ∧ (step ⟨Generated.aadLiteral⟩ gcm ent key pos fw keyId).1 = pos + 12 := by
  refine ⟨?_, rfl, rfl⟩
  simp only [step, encryptAndGenerate, generate, splitAsset, ivOf]
  have hn := window_length ent pos
  have e1 : (window ent pos ++ (gcm key (window ent pos) Generated.aadLiteral fw).2
      ++ (gcm key (window ent pos) Generated.aadLiteral fw).1).take 12 = window ent pos := by
    rw [List.append_assoc, List.take_left' hn]
  rw [e1, C06_info_shape (window ent pos) none keyId (-6) hk (by decide) (by omega) (by intro c h; cases h)]
  rfl

/-- over a history the i-th call publishes the i-th window of the stream: no call re-uses another call's draw -/
theorem C14_no_reuse_of_draws (gcm : GcmEnc) (ent : Nat → UInt8) (key : Bytes) :
    ∀ (hist : List (Bytes × Int)) (pos : Nat), (∀ e ∈ hist, -(2 ^ 64 : Int) ≤ e.2 ∧ e.2 < 2 ^ 64) →
      (run ⟨Generated.aadLiteral⟩ gcm ent key pos hist).map ivOf
        = (List.range hist.length).map (fun i => some (window ent (pos + 12 * i))) := by
  intro hist
  induction hist with
  | nil => intro pos _; simp [run]
  | cons e rest ih =>
    intro pos hk
    obtain ⟨fw, kid⟩ := e
    have h1 := (C14_iv_from_this_call gcm ent key pos fw kid (hk (fw, kid) (by simp))).1
    simp only [run, List.map_cons, List.length_cons, List.range_succ_eq_map, List.map_map]
    have hstep : (step ⟨Generated.aadLiteral⟩ gcm ent key pos fw kid).1 = pos + 12 := rfl
    rw [h1, hstep, ih (pos + 12) (fun e he => hk e (by simp [he]))]
    simp only [Nat.mul_zero, Nat.add_zero, List.cons.injEq, true_and]
    apply List.map_congr_left
    intro i _
    simp only [Function.comp]
    congr 2
    omega

/-- the stream positions read by different calls are disjoint ranges -/
theorem C14_disjoint_ranges (pos i j : Nat) (h : i ≠ j) (a b : Nat) (ha : a < 12) (hb : b < 12) :
    pos + 12 * i + a ≠ pos + 12 * j + b := by omega

/-- freshness of the entropy stream over the first `n` draws: distinct draws are distinct byte strings -/
def StreamFresh (ent : Nat → UInt8) (pos n : Nat) : Prop :=
  ∀ i j, i < n → j < n → i ≠ j → window ent (pos + 12 * i) ≠ window ent (pos + 12 * j)

/-- **Pairwise distinct IVs.** Under stream freshness, across any history of calls with the same key - including
repeated encryption of identical firmware - the published IVs are pairwise distinct. -/
theorem C14_pairwise_distinct (gcm : GcmEnc) (ent : Nat → UInt8) (key : Bytes) (hist : List (Bytes × Int)) (pos : Nat)
    (hk : ∀ e ∈ hist, -(2 ^ 64 : Int) ≤ e.2 ∧ e.2 < 2 ^ 64) (hfresh : StreamFresh ent pos hist.length)
    (i j : Nat) (hi : i < hist.length) (hj : j < hist.length) (hij : i ≠ j) :
    ((run ⟨Generated.aadLiteral⟩ gcm ent key pos hist).map ivOf)[i]? ≠
      ((run ⟨Generated.aadLiteral⟩ gcm ent key pos hist).map ivOf)[j]? := by
  rw [C14_no_reuse_of_draws gcm ent key hist pos hk]
  simp only [List.getElem?_map, List.getElem?_range hi, List.getElem?_range hj, Option.map_some]
  intro h
  exact hfresh i j hi hj hij (by simpa using h)

end SuitVerif.Props.C14
