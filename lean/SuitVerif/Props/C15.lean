import SuitVerif.Convert
import SuitVerif.Props.C05
/-! # C15 — generated key pairs match and convert emits the exact public key (keys half: glue only) -/
namespace SuitVerif.Props.C15
open SuitVerif SuitVerif.Convert

/-- **Fixed width.** For the NIST curves the emitted bytes are X || Y, each exactly `w` bytes big-endian (w = 32, 48,
66): 64, 96, 132 bytes in total, and both halves read back as the coordinates - coordinates with leading zero bytes
are the general case of the statement, not a sample. -/
theorem C15_fixed_width (w x y : Nat) (b : Bytes) (h : pubXY w x y = some b) :
    b.length = 2 * w ∧ ofBe (b.take w) = x ∧ ofBe (b.drop w) = y := by
  unfold pubXY at h
  split at h
  · rename_i hlt
    simp only [Option.some.injEq] at h
    subst h
    have l1 := beBytes_length w x
    refine ⟨by simp [beBytes_length]; omega, ?_, ?_⟩
    · rw [List.take_left' l1]; exact ofBe_beBytes w x hlt.1
    · rw [List.drop_left' l1]; exact ofBe_beBytes w y hlt.2
  · cases h

theorem C15_sizes : 2 * ((256 + 7) / 8) = 64 ∧ 2 * ((384 + 7) / 8) = 96 ∧ 2 * ((521 + 7) / 8) = 132 := by decide

/-- every coordinate of a point on a `key_size`-bit curve fits the width, so the bytes are always produced -/
theorem C15_total (w x y : Nat) (hx : x < 256 ^ w) (hy : y < 256 ^ w) : (pubXY w x y).isSome = true := by
  simp [pubXY, hx, hy]

/-- characters that cannot start a token -/
def blank (c : Char) : Prop := c ≠ '0'

theorem tokens_cons_ne (c : Char) (s : List Char) (h : c ≠ '0') : tokens (c :: s) = tokens s := by
  conv => lhs; unfold tokens
  split
  · rename_i heq; cases heq
  · rename_i a b r heq
    simp only [List.cons.injEq] at heq
    exact absurd heq.1 h
  · rename_i heq
    simp only [List.cons.injEq] at heq
    rw [← heq.2]

theorem tokens_skip (ws s : List Char) (h : ∀ c ∈ ws, c ≠ '0') : tokens (ws ++ s) = tokens s := by
  induction ws with
  | nil => rfl
  | cons c rest ih =>
    simp only [List.cons_append]
    rw [tokens_cons_ne _ _ (h c (by simp))]
    exact ih (fun c hc' => h c (by simp [hc']))

theorem tokens_tok (b : UInt8) (s : List Char) : tokens (hexTok b ++ s) = b :: tokens s := by
  have hb := b.toNat_lt
  simp only [hexTok, List.cons_append, List.nil_append, tokens,
    C05.hexVal_hexDigit _ (show b.toNat / 16 < 16 by omega), C05.hexVal_hexDigit _ (show b.toNat % 16 < 16 by omega),
    C05.byte_recompose]

/-- **Tokenising the array gives back exactly the bytes**, for every byte list, every column count, every indentation
of spaces or tabs: nothing dropped, duplicated or reordered, no trailing comma needed. -/
theorem C15_format_roundtrip (cols : Nat) (ind : List Char) (hind : ∀ c ∈ ind, c ≠ '0') :
    ∀ (data : Bytes) (col : Nat), tokens (fmt cols ind col data) = data := by
  intro data
  induction data with
  | nil => intro col; simp [fmt, tokens]
  | cons b rest ih =>
    intro col
    cases rest with
    | nil =>
      simp only [fmt]
      have hpre : ∀ c ∈ (if col = 0 then ind else [' ']), c ≠ '0' := by
        split
        · exact hind
        · intro c hc; simp at hc; rw [hc]; decide
      rw [List.append_assoc, tokens_skip _ _ hpre, tokens_tok, tokens_cons_ne _ _ (by decide)]
      simp [tokens]
    | cons c rest' =>
      simp only [fmt]
      have hpre : ∀ c ∈ (if col = 0 then ind else [' ']), c ≠ '0' := by
        split
        · exact hind
        · intro c hc; simp at hc; rw [hc]; decide
      rw [List.append_assoc, List.append_assoc, tokens_skip _ _ hpre, tokens_tok]
      simp only [List.cons_append, List.nil_append]
      rw [tokens_cons_ne _ _ (by decide)]
      split
      · rw [tokens_cons_ne _ _ (by decide), ih 0]
      · rw [ih (col + 1)]

/-- the whole array text, for any layout options -/
theorem C15_array_roundtrip (cols : Nat) (indentCount : Nat) (tab : Bool) (data : Bytes) :
    tokens (formatArray cols (List.replicate indentCount (if tab then '\t' else ' ')) data) = data := by
  unfold formatArray
  split
  · rename_i h
    have : data = [] := by simpa using h
    subst this; rfl
  · apply C15_format_roundtrip
    intro c hc
    have := List.eq_of_mem_replicate hc
    rw [this]; cases tab <;> decide

/-- **Layout options affect formatting only**: two option sets give arrays with the same bytes -/
theorem C15_layout_only (c1 c2 i1 i2 : Nat) (t1 t2 : Bool) (data : Bytes) :
    tokens (formatArray c1 (List.replicate i1 (if t1 then '\t' else ' ')) data)
      = tokens (formatArray c2 (List.replicate i2 (if t2 then '\t' else ' ')) data) := by
  rw [C15_array_roundtrip, C15_array_roundtrip]

/-- keys: a failing serialisation of either half means no file at all; otherwise both halves are written -/
theorem C15_keys_atomic (priv pub : Option Bytes) :
    (createKeyPair priv pub = none ↔ (priv = none ∨ pub = none))
    ∧ (∀ a b, createKeyPair priv pub = some (a, b) → priv = some a ∧ pub = some b) := by
  cases priv <;> cases pub <;> simp [createKeyPair]

example : String.ofList (formatArray 2 [' ', ' '] [1, 2, 3]) = "  0x01, 0x02,\n  0x03\n" := by decide +kernel

end SuitVerif.Props.C15
