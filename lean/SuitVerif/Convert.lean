import SuitVerif.Bytes
/-! L3: model of `suit_generator/cmd_convert.py` (`KeyConverter`: public key bytes and the C file) and of the glue of
`cmd_keys.py` (`create_key_pair`: both serialisations before either file is written). -/
namespace SuitVerif.Convert
open SuitVerif

/-- fixed-width big-endian X || Y of `w = (key_size + 7) / 8` bytes each (`none`: OverflowError) -/
def pubXY (w x y : Nat) : Option Bytes :=
  if x < 256 ^ w ∧ y < 256 ^ w then some (beBytes w x ++ beBytes w y) else none

/-- `0xNN` -/
def hexTok (b : UInt8) : List Char := ['0', 'x', hexDigit (b.toNat / 16), hexDigit (b.toNat % 16)]

/-- the rows of the array: `cols` bytes per row, each row indented, bytes separated by ", ", a comma after every
byte except the very last, a newline after every row -/
def fmt (cols : Nat) (ind : List Char) : Nat → Bytes → List Char
  | _, [] => []
  | col, [b] => (if col = 0 then ind else [' ']) ++ hexTok b ++ ['\n']
  | col, b :: c :: rest =>
    (if col = 0 then ind else [' ']) ++ hexTok b ++ [','] ++
      (if col + 1 = cols then '\n' :: fmt cols ind 0 (c :: rest) else fmt cols ind (col + 1) (c :: rest))

/-- `_prepare_array` (for no bytes the Python yields a single newline) -/
def formatArray (cols : Nat) (ind : List Char) (data : Bytes) : List Char :=
  if data.isEmpty then ['\n'] else fmt cols ind 0 data

structure Options where
  arrayType : String
  arrayName : String
  lengthType : String
  lengthName : String
  cols : Nat
  indentCount : Nat
  indentTab : Bool
  noLength : Bool
  noConst : Bool
  header : String      -- content of the header file ("" = none / empty)
  footer : String

def Options.indent (o : Options) : List Char := List.replicate o.indentCount (if o.indentTab then '\t' else ' ')

/-- `prepare_file_contents` -/
def fileText (o : Options) (data : Bytes) : String :=
  let hdr := if o.header.isEmpty then "" else o.header ++ "\n\n"
  let modf := if o.noConst then "" else "const "
  let lenVar :=
    if o.noLength then "" else
      let rhs := (if o.lengthType != "size_t" then "(" ++ o.lengthType ++ ") " else "") ++ "sizeof(" ++ o.arrayName ++ ");"
      "\n" ++ modf ++ o.lengthType ++ " " ++ o.lengthName ++ " = " ++ rhs ++ "\n"
  let ftr := if o.footer.isEmpty then "" else "\n" ++ o.footer
  hdr ++ modf ++ o.arrayType ++ " " ++ o.arrayName ++ "[] = {\n" ++ String.ofList (formatArray o.cols o.indent data) ++ "};\n"
    ++ lenVar ++ ftr

/-- the verifier's tokeniser of a C array body: every `0x` followed by two hex digits is one byte -/
def tokens : List Char → Bytes
  | [] => []
  | '0' :: 'x' :: a :: b :: rest =>
    match hexVal a, hexVal b with
    | some x, some y => UInt8.ofNat (x * 16 + y) :: tokens rest
    | _, _ => tokens rest
  | _ :: rest => tokens rest

/-- `create_key_pair`: both serialisations are computed before either file is written; a `ValueError` from either
becomes a GeneratorError and nothing is written -/
def createKeyPair (priv pub : Option Bytes) : Option (Bytes × Bytes) :=
  match priv, pub with
  | some a, some b => some (a, b)
  | _, _ => none

end SuitVerif.Convert
