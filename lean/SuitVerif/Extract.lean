import SuitVerif.Cache
/-! L3: model of `cache_create from_envelope` (`CacheFromEnvelope`, recursive through dependency envelopes) and of
`payload_extract` (`cmd_payload_extract.py`), on the generic CBOR value `cbor2.loads` returns.
The two regular expressions enter as predicates on names (`re.fullmatch` computed by Python in the harness). -/
namespace SuitVerif.Extract
open SuitVerif SuitVerif.Cache

inductive Err where
  | generatorError     -- not a valid envelope / failure inside a dependency
  | cache (e : Cache.Err)   -- duplicate URI etc. from `add_cache_slot`
  | internal (k : String)
  deriving Repr, DecidableEq

abbrev R := Except Err

def textKey : Cbor → Option Bytes
  | .tstr b => some b
  | _ => none

def mapRemove (m : List (Cbor × Cbor)) (k : Cbor) : List (Cbor × Cbor) := m.filter (fun e => !(e.1 == k))

def mapSet (m : List (Cbor × Cbor)) (k v : Cbor) : List (Cbor × Cbor) :=
  if m.any (fun e => e.1 == k) then m.map (fun e => if e.1 == k then (e.1, v) else e) else m ++ [(k, v)]

/-- pop the payloads to extract into the cache, in map order -/
def extractPayloads (eb : Nat) : Cache.State → List (Cbor × Cbor) → List Bytes → R (Cache.State × List (Cbor × Cbor))
  | s, m, [] => .ok (s, m)
  | s, m, name :: rest =>
    match Cbor.lookup (.tstr name) m with
    | some (.bstr v) =>
      match Cache.addSlot eb s name v with
      | .ok s' => extractPayloads eb s' (mapRemove m (.tstr name)) rest
      | .error e => .error (.cache e)
    | some _ => .error (.internal "TypeError")       -- len() of a non-bytes payload
    | none => .error (.internal "KeyError")

mutual
/-- `fill_cache_from_envelope_data`: `isDep` / `isOmitted` are `re.fullmatch(dependency_regex, ·) is not None` and
`re.fullmatch(omit_payload_regex, ·) is not None` (constantly false when the option is absent) -/
def fill (eb : Nat) (isDep isOmitted : Bytes → Bool) : Nat → Cache.State → Bytes → R (Cache.State × Bytes)
  | 0, _, _ => .error (.internal "fuel")
  | fuel + 1, s, data =>
    match loads data with
    | some (.tag t (.map m)) =>
      let integrated := m.filterMap (fun e => textKey e.1)
      let deps := integrated.filter isDep
      let payloads := (integrated.filter (fun k => !isDep k)).filter (fun k => !isOmitted k)
      match extractPayloads eb s m payloads with
      | .error e => .error e
      | .ok (s1, m1) =>
        match fillDeps eb isDep isOmitted fuel s1 m1 deps with
        | .error e => .error e
        | .ok (s2, m2) => .ok (s2, enc (.tag t (.map m2)))
    | _ => .error .generatorError
def fillDeps (eb : Nat) (isDep isOmitted : Bytes → Bool) : Nat → Cache.State → List (Cbor × Cbor) → List Bytes
    → R (Cache.State × List (Cbor × Cbor))
  | 0, _, _, _ => .error (.internal "fuel")
  | _ + 1, s, m, [] => .ok (s, m)
  | fuel + 1, s, m, d :: rest =>
    match Cbor.lookup (.tstr d) m with
    | some (.bstr v) =>
      match fill eb isDep isOmitted fuel s v with
      | .ok (s', v') => fillDeps eb isDep isOmitted fuel s' (mapSet m (.tstr d) (.bstr v')) rest
      | .error .generatorError => .error .generatorError
      | .error e => .error e
    | some _ => .error .generatorError      -- cbor2.loads of a non-bytes value: caught, "not a valid envelope"
    | none => .error (.internal "KeyError")
end

/-- `cache_create from_envelope`: (cache file, output envelope) -/
def fromEnvelope (eb : Nat) (isDep isOmitted : Bytes → Bool) (envelope : Bytes) : R (Bytes × Bytes) :=
  match fill eb isDep isOmitted (envelope.length + 2) {} envelope with
  | .ok (s, out) => .ok (Cache.close s, out)
  | .error e => .error e

/-- `payload_extract`: (output envelope, extracted payload if any) -/
def payloadExtract (envelope : Bytes) (name : Bytes) (replacement : Option Bytes) : R (Bytes × Option Cbor) :=
  match loads envelope with
  | some (.tag t (.map m)) =>
    let extracted := Cbor.lookup (.tstr name) m
    let m1 := mapRemove m (.tstr name)
    let m2 := match replacement with
      | some r => m1 ++ [(.tstr name, .bstr r)]
      | none => m1
    .ok (enc (.tag t (.map m2)), extracted)
  | some _ => .error (.internal "AttributeError")
  | none => .error (.internal "CBORDecodeError")

end SuitVerif.Extract
