import SuitVerif.Cbor
/-! Executable statements of the envelope-level properties on the observable bytes only: the verifier's own
strict CBOR reader (`decodeStrict`), its own digest table (by COSE algorithm identifier), no part of the model.
These predicates are evaluated on the bytes the real tool writes and are the conclusions of the theorems. -/
namespace SuitVerif.Spec
open SuitVerif

/-- the verifier's digest table: COSE algorithm identifier → digest function -/
abbrev HashById := Int → Option (Bytes → Bytes)

/-- `SUIT_Digest = [alg, bstr]` -/
def digestPair (c : Cbor) : Option (Int × Bytes) :=
  match c with
  | .arr [a, .bstr d] => (a.toInt?).map (fun i => (i, d))
  | _ => none

/-- the map inside a tag-107 envelope given in definite-length shortest form -/
def envelopeMap (out : Bytes) : Option (List (Cbor × Cbor)) :=
  match decodeStrict out with
  | some (.tag 107 (.map m)) => some m
  | _ => none

/-- **C01, root**: the authentication wrapper's digest equals the declared hash of the byte-string-wrapped manifest
exactly as it sits in this envelope (`enc (bstr manifest)` *is* that span, `decodeStrict_sound`). -/
def checkRoot (H : HashById) (m : List (Cbor × Cbor)) : Bool :=
  match Cbor.lookup (.uint 2) m, Cbor.lookup (.uint 3) m with
  | some (.bstr ab), some (.bstr mb) =>
    match decodeStrict ab with
    | some (.arr (.bstr db :: _)) =>
      match (decodeStrict db).bind digestPair with
      | some (alg, dig) =>
        match H alg with
        | some h => dig == h (enc (.bstr mb))
        | none => false
      | none => false
    | _ => false
  | _, _ => false

def severableKeys : List Nat := [15, 16, 17, 18, 20, 23]

/-- **C01, severed members**: for every severable member the manifest references by digest and that is present in
the envelope, the recorded digest equals the declared hash of that member's wrapped bytes as they appear there. -/
def checkSevered (H : HashById) (m : List (Cbor × Cbor)) : Bool :=
  match Cbor.lookup (.uint 3) m with
  | some (.bstr mb) =>
    match decodeStrict mb with
    | some (.map mm) =>
      severableKeys.all (fun k =>
        match Cbor.lookup (.uint k) mm, Cbor.lookup (.uint k) m with
        | some d, some v =>
          match digestPair d with
          | some (alg, dig) => (match H alg with | some h => dig == h (enc v) | none => false)
          | none => true                -- the manifest holds the member itself, not a digest
        | _, _ => true)
    | _ => false
  | _ => false

def check1 (H : HashById) (out : Bytes) : Bool :=
  match envelopeMap out with
  | some m => checkRoot H m && checkSevered H m
  | none => false

/-- the same at every level: every text-keyed member that is itself a tag-107 envelope is checked recursively -/
def checkRec (H : HashById) : Nat → Bytes → Bool
  | 0, _ => false
  | fuel + 1, out =>
    match envelopeMap out with
    | some m =>
      checkRoot H m && checkSevered H m &&
        m.all (fun e => match e with
          | (.tstr _, .bstr v) => (match envelopeMap v with | some _ => checkRec H fuel v | none => true)
          | _ => true)
    | none => false

/-! ### C04: signing attaches one verifiable COSE_Sign1 and changes nothing else -/

structure SignView where
  protectedBytes : Bytes
  signature : Bytes
  message : Bytes          -- the Sig_structure the signature must verify over
  deriving Repr

/-- `output` equals `input` with exactly one COSE_Sign1 block appended to the authentication wrapper: same tag, same
members in the same order, every member other than key 2 identical; the wrapper is the same list plus one element
`bstr .cbor #6.18([protected, {}, nil, signature])`; the protected header is `{1: alg, 4: bstr .cbor keyId}`.
Returns what has to be verified cryptographically. -/
def checkSigned (input output : Bytes) (coseAlg keyId : Int) : Option SignView :=
  match decodeStrict input, decodeStrict output with
  | some (.tag 107 (.map mi)), some (.tag 107 (.map mo)) =>
    if mi.length ≠ mo.length then none else
    let pairsOk := (mi.zip mo).all (fun (a, b) => a.1 == b.1 && (a.1 == .uint 2 || a.2 == b.2))
    if !pairsOk then none else
    match Cbor.lookup (.uint 2) mi, Cbor.lookup (.uint 2) mo with
    | some (.bstr wi), some (.bstr wo) =>
      match decodeStrict wi, decodeStrict wo with
      | some (.arr li), some (.arr lo) =>
        if lo.length ≠ li.length + 1 ∨ !(lo.take li.length == li) then none else
        match lo.getLast?, li.head? with
        | some (.bstr nb), some (.bstr db) =>
          match decodeStrict nb, decodeStrict db with
          | some (.tag 18 (.arr [.bstr prot, .map [], .simple 22, .bstr sig])), some digest =>
            match decodeStrict prot with
            | some (.map [(.uint 1, a), (.uint 4, .bstr kid)]) =>
              if a.toInt? == some coseAlg && (decodeStrict kid).bind Cbor.toInt? == some keyId then
                some { protectedBytes := prot, signature := sig,
                       message := enc (.arr [.tstr (utf8 "Signature1"), .bstr prot, .bstr [], .bstr (enc digest)]) }
              else none
            | _ => none
          | _, _ => none
        | _, _ => none
      | _, _ => none
    | _, _ => none
  | _, _ => none

end SuitVerif.Spec
