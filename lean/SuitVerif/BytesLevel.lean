import SuitVerif.Final
namespace SuitVerif.Typing
open SuitVerif SuitVerif.Encode SuitVerif.Decode SuitVerif.Py

theorem toInt_ofInt (i : Int) : (Cbor.ofInt i).toInt? = some i := by
  unfold Cbor.ofInt
  split <;> simp [Cbor.toInt?] <;> omega

theorem hash_eq (cx : Ctx) (alg : String) (x hd : Bytes) (h : cx.hash alg x = some hd) : hd = cx.hashFn alg x := by
  unfold Ctx.hash at h
  split at h <;> simp_all

/-- what a digest node is on the wire and for the accessors of the digest updates -/
theorem isDigest_vals {algs : List (String × Int)} {dg : Node} (h : IsDigest algs dg) :
    ∃ A b, IsAlg algs A ∧ dg.toVal = .arr [A.toVal, .bstr b] ∧ dg.toBytes = enc dg.toVal ∧
      digestBytes dg = some b ∧
      digestAlg dg = (match A with | .enumv name _ => some name | _ => none) := by
  induction h with
  | tuple ha =>
    rename_i ks A b
    refine ⟨A, b, ha, by simp [Node.toVal, valList], by simp [Node.toBytes, Node.toVal], by simp [digestBytes, peel], ?_⟩
    cases ha <;> simp [digestAlg, peel]
  | alt _ ih =>
    obtain ⟨A, b, ha, hv, hb, hdb, hda⟩ := ih
    exact ⟨A, b, ha, by simpa [Node.toVal] using hv, by simpa [Node.toBytes, Node.toVal] using hb,
      by simpa [digestBytes, peel] using hdb, by simpa [digestAlg, peel] using hda⟩

end SuitVerif.Typing

namespace SuitVerif.Typing
open SuitVerif SuitVerif.Encode SuitVerif.Decode SuitVerif.Py

/-- the values that must be encodable (all lengths and integers below 2^64) for the strict reader to read the envelope,
the authentication wrapper, the digest and the manifest back -/
def layerVals (n : Node) : List Cbor :=
  match n with
  | .tagged _ _ (.kv es) =>
    [n.toVal] ++
    (match kvGet es 2 with
     | some (.wrapped a) => [a.toVal] ++ (match a with | .tuple _ (.wrapped dg :: _) => [dg.toVal] | _ => [])
     | _ => []) ++
    (match kvGet es 3 with
     | some (.wrapped m) => [m.toVal]
     | _ => [])
  | _ => []

theorem ofInt_nat (k : Nat) : Cbor.ofInt (k : Int) = .uint k := by
  unfold Cbor.ofInt
  have : ¬ ((k : Int) < 0) := by omega
  simp [this]

theorem root_ok (cx : Ctx) (H : Spec.HashById) (hH : ∀ e ∈ hashEnum cx.schema, H e.2 = some (cx.hashFn e.1))
    (es : List (KvKey × Node)) (hs : EnvShape (hashEnum cx.schema) es)
    (m : Node) (hm : kvGet es 3 = some m) (d : Node) (alg : String) (hd : Bytes)
    (hauth : authDigest es = some d) (halg : digestAlg d = some alg) (hhash : cx.hash alg m.toBytes = some hd)
    (hbytes : digestBytes d = some hd)
    (nm : String) (hwf : ∀ v ∈ layerVals (.tagged 107 nm (.kv es)), v.wf = true) :
    Spec.checkRoot H (kvPairs es []) = true := by
  -- the authentication wrapper entry and its shape
  unfold authDigest at hauth
  cases ha : kvGet es 2 with
  | none => simp [ha] at hauth
  | some a =>
    obtain ⟨ks, dg, blocks, rfl, hdg⟩ := hs.auth a ha
    simp only [ha, peel] at hauth
    simp only [Option.some.injEq] at hauth
    subst hauth
    obtain ⟨mes, rfl, _, _⟩ := hs.man m hm
    obtain ⟨A, b, hA, hval, htb, hdb, hda⟩ := isDigest_vals hdg
    have halg' : digestAlg dg = some alg := by simpa [digestAlg, peel] using halg
    have hbytes' : digestBytes dg = some hd := by simpa [digestBytes, peel] using hbytes
    rw [hdb] at hbytes'
    simp only [Option.some.injEq] at hbytes'
    subst hbytes'
    rw [hda] at halg'
    -- the algorithm node is an enumeration entry
    cases hA with
    | null => simp at halg'
    | enumv he =>
      rename_i e
      simp only [Option.some.injEq] at halg'
      subst halg'
      -- lookups
      have l2 := lookup_kvPairs 2 es [] hs.good
      have l3 := lookup_kvPairs 3 es [] hs.good
      rw [ha] at l2
      rw [hm] at l3
      have e2 : Cbor.ofInt 2 = .uint 2 := ofInt_nat 2
      have e3 : Cbor.ofInt 3 = .uint 3 := ofInt_nat 3
      rw [e2] at l2
      rw [e3] at l3
      simp only [layerVals, ha, hm, List.mem_append, List.mem_cons, List.mem_nil_iff, or_false, List.mem_singleton] at hwf
      have wA := hwf (Node.tuple ks (Node.wrapped dg :: blocks)).toVal (by simp)
      have wD := hwf dg.toVal (by simp)
      unfold Spec.checkRoot
      rw [l2, l3]
      simp only [Node.toVal]
      have hA1 : (Node.tuple ks (Node.wrapped dg :: blocks)).toBytes = enc (Node.tuple ks (Node.wrapped dg :: blocks)).toVal := by
        simp [Node.toBytes, Node.toVal]
      rw [hA1, decodeStrict_enc _ wA]
      simp only [Node.toVal, valList]
      rw [htb, decodeStrict_enc _ wD, hval]
      simp only [Option.bind, Spec.digestPair, Node.toVal, toInt_ofInt, Option.map_some]
      rw [hH e he]
      have := hash_eq cx e.1 _ _ hhash
      simp [this, Node.toBytes]

end SuitVerif.Typing

namespace SuitVerif.Typing
open SuitVerif SuitVerif.Encode SuitVerif.Decode SuitVerif.Py

theorem sev_ok (cx : Ctx) (H : Spec.HashById) (hH : ∀ e ∈ hashEnum cx.schema, H e.2 = some (cx.hashFn e.1))
    (es : List (KvKey × Node)) (hs : EnvShape (hashEnum cx.schema) es)
    (mes : List (KvKey × Node)) (hm : kvGet es 3 = some (.wrapped (.kv mes)))
    (hsev : ∀ k ∈ Encode.severableKeys, SevOk cx es mes k)
    (nm : String) (hwf : ∀ v ∈ layerVals (.tagged 107 nm (.kv es)), v.wf = true) :
    Spec.checkSevered H (kvPairs es []) = true := by
  obtain ⟨mes', hmeq, hgoodm, hent⟩ := hs.man _ hm
  simp only [Node.wrapped.injEq, Node.kv.injEq] at hmeq
  subst hmeq
  have l3 := lookup_kvPairs 3 es [] hs.good
  have e3 : Cbor.ofInt 3 = .uint 3 := ofInt_nat 3
  rw [hm, e3] at l3
  simp only [layerVals, hm, List.mem_append, List.mem_cons, List.mem_nil_iff, or_false, List.mem_singleton] at hwf
  have wM := hwf (Node.kv mes).toVal (by simp)
  unfold Spec.checkSevered
  rw [l3]
  simp only [Node.toVal]
  have hM1 : (Node.kv mes).toBytes = enc (Node.kv mes).toVal := by simp [Node.toBytes, Node.toVal]
  rw [hM1, decodeStrict_enc _ wM]
  simp only [Node.toVal]
  rw [List.all_eq_true]
  intro k hk
  have hkI : (k : Int) ∈ sevKeys ∧ (k : Int) ∈ Encode.severableKeys := by
    simp only [Spec.severableKeys, List.mem_cons, List.mem_nil_iff, or_false] at hk
    rcases hk with rfl | rfl | rfl | rfl | rfl | rfl <;> decide
  have lm := lookup_kvPairs (k : Int) mes [] hgoodm
  have le := lookup_kvPairs (k : Int) es [] hs.good
  rw [ofInt_nat k] at lm le
  rw [lm, le]
  cases hentry : kvGet mes (k : Int) with
  | none => simp [Cbor.lookup]
  | some entry =>
    cases hsv : kvGet es (k : Int) with
    | none => simp [Cbor.lookup]
    | some sv =>
      simp only []
      obtain ⟨x, rfl⟩ := hs.sev _ hkI.1 sv hsv
      rcases hent _ hkI.1 entry hentry with ⟨hda, hdg⟩ | ⟨_, hnone⟩
      · obtain ⟨alg, hd, halg, hhash, hbytes⟩ := hsev _ hkI.2 entry _ hentry hda hsv
        obtain ⟨A, b, hA, hval, _, hdb, hdalg⟩ := isDigest_vals hdg
        rw [hdb] at hbytes
        simp only [Option.some.injEq] at hbytes
        subst hbytes
        rw [hdalg] at halg
        cases hA with
        | null => simp at halg
        | enumv he =>
          rename_i e
          simp only [Option.some.injEq] at halg
          subst halg
          rw [hval]
          simp only [Spec.digestPair, Node.toVal, toInt_ofInt, Option.map_some]
          rw [hH e he]
          have := hash_eq cx e.1 _ _ hhash
          simp [this, Node.toBytes]
      · rw [hnone]


/-- **C01 on the bytes.** For every schema with the envelope's digest paths (`EnvFacts`, checked by the kernel on the extracted
schema), every file system, hash function and description: if the three steps of `create` succeed and the envelope, the
authentication wrapper, the digest and the manifest of the resulting tree are encodable (all lengths and integers below 2^64),
then the byte-level predicate `Spec.check1` - own strict reader, digest table by COSE identifier - holds of the bytes written. -/
theorem check1_steps (cx : Ctx) (hf : EnvFacts cx.schema) (H : Spec.HashById)
    (hH : ∀ e ∈ hashEnum cx.schema, H e.2 = some (cx.hashFn e.1))
    (fuel : Nat) (o : Obj) (n0 n1 n2 : Node)
    (h0 : fromObj cx fuel cx.schema.envelope o = .ok n0) (h1 : updateSeverable cx n0 = .ok n1) (h2 : updateDigest cx n1 = .ok n2)
    (hwf : ∀ v ∈ layerVals n2, v.wf = true) :
    Spec.check1 H n2.toBytes = true := by
  obtain ⟨nm, es, rfl, hs⟩ := shape_steps cx hf fuel o n0 n1 _ h0 h1 h2
  obtain ⟨t, name, es', m, mes, d, alg, hd, hn, hm, hpeel, hauth, halg, hhash, hbytes, hsev⟩ := digestsOk_steps cx fuel o n0 n1 _ h0 h1 h2
  simp only [Node.tagged.injEq, Node.kv.injEq] at hn
  obtain ⟨rfl, rfl, rfl⟩ := hn
  obtain ⟨mes', rfl, _, _⟩ := hs.man m hm
  simp only [peel, Node.kv.injEq] at hpeel
  subst hpeel
  have w0 := hwf (Node.tagged 107 nm (Node.kv es)).toVal (by simp [layerVals])
  unfold Spec.check1 Spec.envelopeMap
  have hb : (Node.tagged 107 nm (Node.kv es)).toBytes = enc (Node.tagged 107 nm (Node.kv es)).toVal := by
    simp [Node.toBytes, Node.toVal]
  rw [hb, decodeStrict_enc _ w0]
  simp only [Node.toVal]
  rw [root_ok cx H hH es hs _ hm d alg hd hauth halg hhash hbytes nm hwf, sev_ok cx H hH es hs mes' hm hsev nm hwf]
  rfl

end SuitVerif.Typing
