import SuitVerif.Bytes
/-! The verifier's own strict Intel-HEX reader, and memory images as lists of segments.
Every hex file the implementation writes is read back with `IHex.read`, so the storage, MPI and update
properties are judged on the memory image the file denotes (record types 00, 01, 02, 04; length and
checksum verified; data after the end-of-file record rejected; overlapping data rejected). -/
namespace SuitVerif.IHex
open SuitVerif

/-- a memory image: segments (start address, bytes), in any order -/
abbrev Image := List (Nat × Bytes)

def Image.get (img : Image) (a : Nat) : Option UInt8 :=
  match img with
  | [] => none
  | (s, b) :: rest => if s ≤ a ∧ a < s + b.length then b[a - s]? else Image.get rest a

def insertSeg (seg : Nat × Bytes) : List (Nat × Bytes) → List (Nat × Bytes)
  | [] => [seg]
  | x :: xs => if seg.1 ≤ x.1 then seg :: x :: xs else x :: insertSeg seg xs

def sortSegs (l : List (Nat × Bytes)) : List (Nat × Bytes) := l.foldr insertSeg []

/-- merge sorted segments; `none` if two segments overlap.  `cur` = (start, end, chunks in reverse) of the
run being built, `acc` = finished runs in reverse. -/
def mergeGo (cur : Nat × Nat × List Bytes) (acc : List (Nat × Bytes)) : List (Nat × Bytes) → Option (List (Nat × Bytes))
  | [] => some ((cur.1, cur.2.2.reverse.flatten) :: acc).reverse
  | (s, b) :: rest =>
    if s < cur.2.1 then none
    else if s = cur.2.1 then mergeGo (cur.1, s + b.length, b :: cur.2.2) acc rest
    else mergeGo (s, s + b.length, [b]) ((cur.1, cur.2.2.reverse.flatten) :: acc) rest

def mergeSorted : List (Nat × Bytes) → Option (List (Nat × Bytes))
  | [] => some []
  | (s, b) :: rest => mergeGo (s, s + b.length, [b]) [] rest

/-- canonical form: non-empty segments sorted by address, contiguous ones joined; `none` on overlap -/
def canon (img : Image) : Option Image := mergeSorted (sortSegs (img.filter (fun s => s.2 ≠ [])))

structure RState where
  upper : Nat := 0            -- extended linear address (upper 16 bits) or segment base
  segBase : Nat := 0
  segs : List (Nat × Bytes) := []
  done : Bool := false

def checksumOk (rec : Bytes) : Bool := (rec.foldl (fun a b => a + b.toNat) 0) % 256 == 0

/-- one record line (without the leading colon), as bytes -/
def stepRecord (st : RState) (rec : Bytes) : Option RState :=
  if st.done then none else
  match rec with
  | len :: ah :: al :: ty :: rest =>
    if rest.length ≠ len.toNat + 1 then none
    else if !checksumOk rec then none
    else
      let data := rest.take len.toNat
      let off := ah.toNat * 256 + al.toNat
      match ty.toNat with
      | 0 => some { st with segs := (st.upper * 65536 + st.segBase + off, data) :: st.segs }
      | 1 => if len.toNat = 0 then some { st with done := true } else none
      | 2 => if len.toNat = 2 then some { st with segBase := ofBe data * 16, upper := 0 } else none
      | 4 => if len.toNat = 2 then some { st with upper := ofBe data, segBase := 0 } else none
      | _ => none
  | _ => none

def splitLines (cs : List Char) : List (List Char) :=
  let rec go (cur : List Char) (acc : List (List Char)) : List Char → List (List Char)
    | [] => (if cur = [] then acc else cur.reverse :: acc).reverse
    | c :: rest => if c = '\n' then go [] (cur.reverse :: acc) rest
                   else if c = '\r' then go cur acc rest else go (c :: cur) acc rest
  go [] [] cs

/-- read a whole file; `none` on any malformation (also when the end-of-file record is missing) -/
def read (text : String) : Option Image :=
  let lines := (splitLines text.toList).filter (· ≠ [])
  let r := lines.foldl (fun (acc : Option RState) line =>
    match acc, line with
    | some st, ':' :: hexs =>
      match ofHexChars hexs with
      | some rec => stepRecord st rec
      | none => none
    | _, _ => none) (some {})
  match r with
  | some st => if st.done then canon st.segs.reverse else none
  | none => none

/-- image with `bytes` placed at `addr` -/
def place (addr : Nat) (bytes : Bytes) : Image := [(addr, bytes)]

theorem canon_single (a : Nat) (b : Bytes) (h : b ≠ []) : canon [(a, b)] = some [(a, b)] := by
  simp [canon, sortSegs, insertSeg, mergeSorted, mergeGo, h]

theorem canon_single_empty (a : Nat) : canon [(a, ([] : Bytes))] = some [] := by
  simp [canon, sortSegs, mergeSorted]

end SuitVerif.IHex
