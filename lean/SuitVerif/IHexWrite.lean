import SuitVerif.IHex
/-! A model of the writer the tool uses for every hex file (`intelhex.IntelHex.write_hex_file`, third party), on one
contiguous block of data, and the theorem that the verifier's strict reader gives back exactly that block:
`readRecs (writeRecs addr data) = some [(addr, data)]` for every address and every length below 2^32.

The writer: an extended-linear-address record (type 04) before the first data record and whenever the upper 16 address
bits change, but only when the highest address exceeds 0xFFFF; data records of at most 16 bytes that never cross a 64 KiB
border; the end-of-file record.  Each record is `len, offset-high, offset-low, type, data…, checksum` with the two's-complement
checksum.  (The text layer - a colon, upper-case hexadecimal, a line break per record - is `recordLine`.) -/
namespace SuitVerif.IHex
open SuitVerif

def sumBytes (b : Bytes) : Nat := b.foldl (fun a x => a + x.toNat) 0

def cksum (body : Bytes) : UInt8 := UInt8.ofNat ((256 - sumBytes body % 256) % 256)

def mkRecord (off : Nat) (ty : UInt8) (data : Bytes) : Bytes :=
  let body := UInt8.ofNat data.length :: UInt8.ofNat (off / 256) :: UInt8.ofNat (off % 256) :: ty :: data
  body ++ [cksum body]

def eofRecord : Bytes := mkRecord 0 1 []
def extRecord (hi : Nat) : Bytes := mkRecord 0 4 (beBytes 2 hi)

def chunkLen (addr len : Nat) : Nat := min 16 (min (65536 - addr % 65536) len)

/-- data records for `data` at `addr`; `hi` = the upper address bits the last type-04 record announced -/
def writeGo (need : Bool) : Nat → Option Nat → Nat → Bytes → List Bytes
  | 0, _, _, _ => []
  | fuel + 1, hi, addr, data =>
    if data = [] then [] else
    let n := chunkLen addr data.length
    let pre := if need && hi != some (addr / 65536) then [extRecord (addr / 65536)] else []
    pre ++ mkRecord (addr % 65536) 0 (data.take n) :: writeGo need fuel (if need then some (addr / 65536) else hi) (addr + n) (data.drop n)

/-- the pieces the data is cut into, with their addresses -/
def chunks : Nat → Nat → Bytes → List (Nat × Bytes)
  | 0, _, _ => []
  | fuel + 1, addr, data =>
    if data = [] then [] else
    let n := chunkLen addr data.length
    (addr, data.take n) :: chunks fuel (addr + n) (data.drop n)

/-- the records of a file holding `data` at `addr` -/
def writeRecs (addr : Nat) (data : Bytes) : List Bytes :=
  writeGo (decide (addr + data.length - 1 > 65535)) data.length none addr data ++ [eofRecord]

/-- the reader on records (`read` is this after the text layer) -/
def readRecs (recs : List Bytes) : Option Image :=
  match recs.foldl (fun (acc : Option RState) r => acc.bind (fun st => stepRecord st r)) (some {}) with
  | some st => if st.done then canon st.segs.reverse else none
  | none => none

/-- one line of the file -/
def recordLine (rec : Bytes) : List Char := ':' :: toHexCharsU rec ++ ['\n']

/-- the file: the lines of its records -/
def textOf (recs : List Bytes) : List Char := (recs.map recordLine).flatten

/-- the text of a file holding `data` at `addr` -/
def writeText (addr : Nat) (data : Bytes) : String := String.ofList (textOf (writeRecs addr data))

/-! ### checksums -/

theorem sumBytes_append (a b : Bytes) : sumBytes (a ++ b) = sumBytes a + sumBytes b := by
  unfold sumBytes
  rw [List.foldl_append]
  generalize List.foldl (fun a x => a + x.toNat) 0 a = s
  induction b generalizing s with
  | nil => simp
  | cons x xs ih => simp only [List.foldl_cons]; rw [ih (s + x.toNat), ih (0 + x.toNat)]; omega

theorem checksumOk_mk (body : Bytes) : checksumOk (body ++ [cksum body]) = true := by
  have h : (body ++ [cksum body]).foldl (fun a b => a + b.toNat) 0 = sumBytes (body ++ [cksum body]) := rfl
  unfold checksumOk
  rw [h, sumBytes_append]
  have : sumBytes [cksum body] = (256 - sumBytes body % 256) % 256 := by
    simp [sumBytes, cksum, UInt8.toNat_ofNat']
  rw [this]
  simp only [beq_iff_eq]
  omega

/-! ### one record through the reader -/

theorem step_data (st : RState) (off : Nat) (data : Bytes) (hd : st.done = false) (hl : data.length < 256) (ho : off < 65536) :
    stepRecord st (mkRecord off 0 data) = some { st with segs := (st.upper * 65536 + st.segBase + off, data) :: st.segs } := by
  have hlen : (UInt8.ofNat data.length).toNat = data.length := by simp [UInt8.toNat_ofNat']; omega
  have hah : (UInt8.ofNat (off / 256)).toNat = off / 256 := by simp [UInt8.toNat_ofNat']; omega
  have hal : (UInt8.ofNat (off % 256)).toNat = off % 256 := by simp [UInt8.toNat_ofNat']
  unfold stepRecord mkRecord
  simp only [hd, Bool.false_eq_true, if_false, List.cons_append]
  have hck := checksumOk_mk (UInt8.ofNat data.length :: UInt8.ofNat (off / 256) :: UInt8.ofNat (off % 256) :: 0 :: data)
  simp only [List.cons_append] at hck
  simp only [hck, hlen, List.length_append, List.length_cons, List.length_nil, Nat.zero_add, ne_eq, not_true_eq_false, if_false,
    Bool.not_true, Bool.false_eq_true, List.take_left', hah, hal]
  have : off / 256 * 256 + off % 256 = off := by omega
  simp [this]

theorem step_ext (st : RState) (hi : Nat) (hd : st.done = false) (hh : hi < 65536) :
    stepRecord st (extRecord hi) = some { st with upper := hi, segBase := 0 } := by
  unfold stepRecord extRecord mkRecord
  simp only [hd, Bool.false_eq_true, if_false, List.cons_append]
  have hck := checksumOk_mk (UInt8.ofNat (beBytes 2 hi).length :: UInt8.ofNat (0 / 256) :: UInt8.ofNat (0 % 256) :: 4 :: beBytes 2 hi)
  simp only [List.cons_append, beBytes_length] at hck
  have hb : ofBe (beBytes 2 hi) = hi := ofBe_beBytes 2 hi (by omega)
  simp only [beBytes_length, List.length_append, List.length_cons, List.length_nil]
  simp [List.take_left' (beBytes_length 2 hi), hb]
  exact hck

theorem eofRecord_eq : eofRecord = [0, 0, 0, 1, 255] := by decide

theorem step_eof (st : RState) (hd : st.done = false) : stepRecord st eofRecord = some { st with done := true } := by
  rw [eofRecord_eq]
  simp [stepRecord, hd, checksumOk]

/-! ### all data records through the reader -/

def foldRecs (recs : List Bytes) (st : Option RState) : Option RState :=
  recs.foldl (fun acc r => acc.bind (fun st => stepRecord st r)) st

theorem foldRecs_cons (r : Bytes) (rs : List Bytes) (st : RState) :
    foldRecs (r :: rs) (some st) = foldRecs rs (stepRecord st r) := by simp [foldRecs]

theorem foldRecs_append (a b : List Bytes) (st : Option RState) : foldRecs (a ++ b) st = foldRecs b (foldRecs a st) := by
  simp [foldRecs, List.foldl_append]

theorem chunkLen_facts (addr len : Nat) (h : 0 < len) :
    1 ≤ chunkLen addr len ∧ chunkLen addr len ≤ 16 ∧ chunkLen addr len ≤ len ∧ addr % 65536 + chunkLen addr len ≤ 65536 := by
  unfold chunkLen
  have := Nat.mod_lt addr (show 0 < 65536 by decide)
  omega

/-- the upper address bits the reader has been told after the data records of one block -/
def hiEnd (need : Bool) : Nat → Option Nat → Nat → Bytes → Option Nat
  | 0, hi, _, _ => hi
  | fuel + 1, hi, addr, data =>
    if data = [] then hi else
    hiEnd need fuel (if need then some (addr / 65536) else hi) (addr + chunkLen addr data.length) (data.drop (chunkLen addr data.length))

/-- what the writer knows about the reader's address state -/
def AddrInv (need : Bool) (hi : Option Nat) (st : RState) : Prop :=
  (need = true → ∀ u, hi = some u → st.upper = u ∧ st.segBase = 0) ∧ (need = false → st.upper = 0 ∧ st.segBase = 0)

theorem fold_writeGo (need : Bool) : ∀ (fuel : Nat) (hi : Option Nat) (addr : Nat) (data : Bytes) (st : RState),
    st.done = false → data.length ≤ fuel → addr + data.length ≤ 2 ^ 32 →
    AddrInv need hi st → (need = false → addr + data.length ≤ 65536) →
    ∃ st', foldRecs (writeGo need fuel hi addr data) (some st) = some st'
      ∧ st'.done = false ∧ st'.segs = (chunks fuel addr data).reverse ++ st.segs
      ∧ AddrInv need (hiEnd need fuel hi addr data) st' := by
  intro fuel
  induction fuel with
  | zero =>
    intro hi addr data st hd hl _ hinv _
    exact ⟨st, by simp [writeGo, foldRecs], hd, by simp [chunks], by simpa [hiEnd] using hinv⟩
  | succ fuel ih =>
    intro hi addr data st hd hl hb hinv h2
    by_cases hdata : data = []
    · subst hdata
      exact ⟨st, by simp [writeGo, foldRecs], hd, by simp [chunks], by simpa [hiEnd] using hinv⟩
    · have hpos : 0 < data.length := List.length_pos_iff.mpr hdata
      obtain ⟨hn1, hn16, hnl, hnb⟩ := chunkLen_facts addr data.length hpos
      have hmod := Nat.mod_lt addr (show 0 < 65536 by decide)
      have htake : (data.take (chunkLen addr data.length)).length = chunkLen addr data.length := by
        rw [List.length_take]; omega
      have hdrop : (data.drop (chunkLen addr data.length)).length = data.length - chunkLen addr data.length := List.length_drop
      simp only [writeGo, chunks, hiEnd, hdata, if_false]
      cases need with
      | false =>
        obtain ⟨hu, hsb⟩ := hinv.2 rfl
        have hlim := h2 rfl
        simp only [Bool.false_and, Bool.false_eq_true, if_false, List.nil_append]
        rw [foldRecs_cons, step_data st (addr % 65536) _ hd (by rw [htake]; omega) hmod]
        obtain ⟨st', hf, hd', hs', hi'⟩ := ih hi (addr + chunkLen addr data.length) (data.drop (chunkLen addr data.length))
          { st with segs := (st.upper * 65536 + st.segBase + addr % 65536, data.take (chunkLen addr data.length)) :: st.segs }
          hd (by rw [hdrop]; omega) (by rw [hdrop]; omega) ⟨(by intro h; cases h), fun _ => ⟨hu, hsb⟩⟩ (fun _ => by rw [hdrop]; omega)
        refine ⟨st', hf, hd', ?_, hi'⟩
        rw [hs']
        have : st.upper * 65536 + st.segBase + addr % 65536 = addr := by
          rw [hu, hsb, Nat.mod_eq_of_lt (by omega)]; omega
        simp [this]
      | true =>
        have hhi : addr / 65536 < 65536 := by omega
        simp only [Bool.true_and, if_true]
        by_cases hne : (hi != some (addr / 65536)) = true
        · simp only [hne, if_true, List.singleton_append]
          rw [foldRecs_cons, step_ext st _ hd hhi, foldRecs_cons,
            step_data { st with upper := addr / 65536, segBase := 0 } (addr % 65536) _ hd (by rw [htake]; omega) hmod]
          obtain ⟨st', hf, hd', hs', hi'⟩ := ih (some (addr / 65536)) (addr + chunkLen addr data.length) (data.drop (chunkLen addr data.length))
            { st with upper := addr / 65536, segBase := 0,
                      segs := (addr / 65536 * 65536 + 0 + addr % 65536, data.take (chunkLen addr data.length)) :: st.segs }
            hd (by rw [hdrop]; omega) (by rw [hdrop]; omega)
            ⟨(by intro _ u hu; simp only [Option.some.injEq] at hu; exact ⟨hu, rfl⟩), (by intro h; cases h)⟩ (by intro h; cases h)
          refine ⟨st', hf, hd', ?_, hi'⟩
          rw [hs']
          have : addr / 65536 * 65536 + addr % 65536 = addr := by omega
          simp [this]
        · have heq : hi = some (addr / 65536) := by simpa using hne
          obtain ⟨hu, hsb⟩ := hinv.1 rfl _ heq
          simp only [hne, Bool.false_eq_true, if_false, List.nil_append]
          rw [foldRecs_cons, step_data st (addr % 65536) _ hd (by rw [htake]; omega) hmod]
          obtain ⟨st', hf, hd', hs', hi'⟩ := ih (some (addr / 65536)) (addr + chunkLen addr data.length) (data.drop (chunkLen addr data.length))
            { st with segs := (st.upper * 65536 + st.segBase + addr % 65536, data.take (chunkLen addr data.length)) :: st.segs }
            hd (by rw [hdrop]; omega) (by rw [hdrop]; omega)
            ⟨(by intro _ u hu'; simp only [Option.some.injEq] at hu'; exact ⟨by rw [← hu']; exact hu, hsb⟩), (by intro h; cases h)⟩ (by intro h; cases h)
          refine ⟨st', hf, hd', ?_, hi'⟩
          rw [hs']
          have : st.upper * 65536 + st.segBase + addr % 65536 = addr := by rw [hu, hsb]; omega
          simp [this]

/-! ### the pieces join up again -/

theorem chunks_head (fuel addr : Nat) (data : Bytes) (y : Nat × Bytes) (ys : List (Nat × Bytes))
    (h : chunks fuel addr data = y :: ys) : y.1 = addr := by
  cases fuel with
  | zero => simp [chunks] at h
  | succ f =>
    unfold chunks at h
    split at h
    · cases h
    · simp only [List.cons.injEq] at h
      rw [← h.1]

theorem chunks_nonempty (fuel : Nat) : ∀ (addr : Nat) (data : Bytes) (c : Nat × Bytes), c ∈ chunks fuel addr data → c.2 ≠ [] := by
  induction fuel with
  | zero => intro addr data c h; simp [chunks] at h
  | succ f ih =>
    intro addr data c h
    unfold chunks at h
    split at h
    · cases h
    · rename_i hdata
      have hpos : 0 < data.length := List.length_pos_iff.mpr hdata
      obtain ⟨hn1, _, hnl, _⟩ := chunkLen_facts addr data.length hpos
      rcases List.mem_cons.mp h with h | h
      · subst h
        intro hnil
        have hnil' : data.take (chunkLen addr data.length) = [] := hnil
        have : (data.take (chunkLen addr data.length)).length = 0 := by rw [hnil']; rfl
        rw [List.length_take] at this
        omega
      · exact ih _ _ c h

theorem sortSegs_chunks (fuel : Nat) : ∀ (addr : Nat) (data : Bytes), sortSegs (chunks fuel addr data) = chunks fuel addr data := by
  induction fuel with
  | zero => intro addr data; simp [chunks, sortSegs]
  | succ f ih =>
    intro addr data
    unfold chunks
    split
    · simp [sortSegs]
    · simp only [sortSegs, List.foldr_cons]
      have := ih (addr + chunkLen addr data.length) (data.drop (chunkLen addr data.length))
      simp only [sortSegs] at this
      rw [this]
      cases hc : chunks f (addr + chunkLen addr data.length) (data.drop (chunkLen addr data.length)) with
      | nil => simp [insertSeg]
      | cons y ys =>
        have hy := chunks_head _ _ _ y ys hc
        simp only [insertSeg]
        rw [if_pos (by rw [hy]; omega)]

theorem mergeGo_chunks (fuel : Nat) : ∀ (s0 e : Nat) (accs : List Bytes) (d : Bytes), d.length ≤ fuel →
    mergeGo (s0, e, accs) [] (chunks fuel e d) = some [(s0, accs.reverse.flatten ++ d)] := by
  induction fuel with
  | zero =>
    intro s0 e accs d hl
    have : d = [] := List.eq_nil_of_length_eq_zero (by omega)
    subst this
    simp [chunks, mergeGo]
  | succ f ih =>
    intro s0 e accs d hl
    unfold chunks
    split
    · rename_i hd
      subst hd
      simp [mergeGo]
    · rename_i hdata
      have hpos : 0 < d.length := List.length_pos_iff.mpr hdata
      obtain ⟨hn1, _, hnl, _⟩ := chunkLen_facts e d.length hpos
      have htake : (d.take (chunkLen e d.length)).length = chunkLen e d.length := by rw [List.length_take]; omega
      simp only [mergeGo, Nat.lt_irrefl, if_false, if_true]
      rw [htake, ih s0 (e + chunkLen e d.length) (d.take (chunkLen e d.length) :: accs) (d.drop (chunkLen e d.length))
        (by rw [List.length_drop]; omega)]
      simp [List.append_assoc]

theorem canon_chunks (fuel addr : Nat) (data : Bytes) (hl : data.length ≤ fuel) (hd : data ≠ []) :
    canon (chunks fuel addr data) = some [(addr, data)] := by
  unfold canon
  have hf : (chunks fuel addr data).filter (fun s => s.2 ≠ []) = chunks fuel addr data := by
    rw [List.filter_eq_self]
    intro c hc
    simpa using chunks_nonempty fuel addr data c hc
  rw [hf, sortSegs_chunks]
  cases fuel with
  | zero => exact absurd (List.eq_nil_of_length_eq_zero (by omega)) hd
  | succ f =>
    unfold chunks
    simp only [hd, if_false]
    have hpos : 0 < data.length := List.length_pos_iff.mpr hd
    obtain ⟨hn1, _, hnl, _⟩ := chunkLen_facts addr data.length hpos
    have htake : (data.take (chunkLen addr data.length)).length = chunkLen addr data.length := by rw [List.length_take]; omega
    simp only [mergeSorted]
    rw [htake, mergeGo_chunks f addr (addr + chunkLen addr data.length) [data.take (chunkLen addr data.length)]
      (data.drop (chunkLen addr data.length)) (by rw [List.length_drop]; omega)]
    simp

/-- **the reader gives back what the writer wrote**: for every address and every block of data that ends below 2^32, reading the
records of the file yields exactly that block at that address (and nothing for an empty block). -/
theorem readRecs_writeRecs (addr : Nat) (data : Bytes) (hb : addr + data.length ≤ 2 ^ 32) :
    readRecs (writeRecs addr data) = some (if data = [] then [] else [(addr, data)]) := by
  unfold readRecs writeRecs
  have hfold : ∀ recs, List.foldl (fun (acc : Option RState) r => acc.bind (fun st => stepRecord st r)) (some {}) recs
      = foldRecs recs (some {}) := fun _ => rfl
  rw [hfold, foldRecs_append]
  obtain ⟨st', hf, hd', hs', _⟩ := fold_writeGo (decide (addr + data.length - 1 > 65535)) data.length none addr data {} rfl (Nat.le_refl _) hb
    ⟨(by intro _ u hu; cases hu), fun _ => ⟨rfl, rfl⟩⟩
    (by intro hneed; simp only [decide_eq_false_iff_not] at hneed; omega)
  rw [hf, foldRecs_cons, step_eof st' hd']
  simp only [foldRecs, List.foldl_nil]
  rw [hs']
  simp only [List.append_nil, List.reverse_reverse]
  by_cases hdata : data = []
  · subst hdata
    simp [chunks, canon, sortSegs, mergeSorted]
  · simp only [hdata, if_false]
    exact canon_chunks data.length addr data (Nat.le_refl _) hdata

end SuitVerif.IHex
