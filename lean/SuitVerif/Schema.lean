import SuitVerif.Cbor
/-! L2: the data suit-generator's generic interpreter (`suit/types/common.py`) runs on.

* `Ty` / `Schema`: the class-level metadata (`_metadata`, `_group`, `_bit_class`, tag numbers …) as data.
  `Generated/Schema.lean` is re-extracted from the live Python classes on every run.
* `Obj`: the description language (the JSON data model with ordered dictionaries).
* `Node`: the internal object tree, self-describing enough that encoding (`toVal`), rendering (`toObj`) and the
  digest updates need no schema. -/
namespace SuitVerif

abbrev Cls := Nat

structure Entry where
  name : String
  id : Int
  cls : Cls
  /-- the key object *is* `suit_integrated_payloads` / `suit_integrated_dependencies` (flattened on encode) -/
  merge : Bool := false
  deriving Repr, BEq, DecidableEq

inductive Ty where
  | uint | int | bool | null | tstr | bstr | hex | emptyBstr | bchar
  | rawBstr                      -- byte string rendered as {"raw": hex}
  | enum (es : List (String × Int))
  | bitfield (bit : Cls) (len : Nat)
  | keyValue (es : List Entry) (embedded : Option String)   -- name of the embedded entry (`suit-integrated-payloads`)
  | keyValueTuple (es : List Entry)
  | keyValueUnnamed (es : List (Cls × Cls))
  | tupleNamed (es : List (String × Cls))
  | list (child : Cls) (group : Option Nat)
  | union (alts : List Cls)
  | tag (n : Nat) (name : String) (child : Cls)
  | cbstr (inner : Cls)
  | uuid | imageSize
  | version (child : Cls)
  | digestExt (raw : Cls)
  | encInfoExt
  | payloadMap (key val : Cls)
  | headerMapOptional (map empty : Cls)
  | unknown                      -- a class the translator could not classify (ties that class to correspondence only)
  deriving Repr, BEq, DecidableEq

structure Schema where
  classes : List (String × Ty)
  envelope : Cls                 -- SuitEnvelopeTagged
  envelopeSimplified : Cls       -- SuitEnvelopeTaggedSimplified (probe used while parsing unknown keys)
  hashes : List (String × Nat)   -- SuitHash._hash_func: algorithm name → digest length
  deriving Repr

def Schema.ty (s : Schema) (c : Cls) : Option Ty := (s.classes[c]?).map (·.2)
def Schema.name (s : Schema) (c : Cls) : String := ((s.classes[c]?).map (·.1)).getD "?"

/-- the description language -/
inductive Obj where
  | null
  | bool (b : Bool)
  | int (n : Int)
  | str (s : String)
  | list (xs : List Obj)
  | dict (kvs : List (String × Obj))
  | other                      -- a value outside the JSON-with-integers model (float, date, bytes …)
  deriving Repr, Inhabited, BEq

def Obj.get? (k : String) : List (String × Obj) → Option Obj
  | [] => none
  | (k', v) :: rest => if k' = k then some v else Obj.get? k rest

mutual
def Obj.size : Obj → Nat
  | .list xs => 1 + Obj.sizeList xs
  | .dict kvs => 1 + Obj.sizeDict kvs
  | .str s => 1 + s.length
  | _ => 1
def Obj.sizeList : List Obj → Nat
  | [] => 0
  | x :: xs => x.size + Obj.sizeList xs
def Obj.sizeDict : List (String × Obj) → Nat
  | [] => 0
  | (_, v) :: xs => 1 + v.size + Obj.sizeDict xs
end

/-- `k.replace("*", r)` and `"*" in k` on metadata keys (list-based so that the kernel can evaluate them) -/
def replaceStar (k r : String) : String :=
  String.ofList (k.toList.flatMap (fun c => if c = '*' then r.toList else [c]))
def hasStar (k : String) : Bool := k.toList.contains '*'

/-- how a scalar leaf is rendered by `to_obj` -/
inductive Render where
  | plain        -- the value itself (int, bool, None, str)
  | hex          -- bytes.hex()
  | rawHex       -- {"raw": bytes.hex()}      (SuitUUID)
  | rawInt       -- {"raw": int}              (SuitImageSize)
  deriving Repr, BEq, DecidableEq

structure KvKey where
  name : String
  id : Int
  merge : Bool
  deriving Repr, BEq, DecidableEq

inductive Node where
  | leaf (v : Cbor) (r : Render)          -- int / bool / None / str / bytes held by a scalar object
  | bchar (s : String)                    -- SuitBchar (one character)
  | emptyRaw                              -- SuitEmptyBstr: `to_cbor` returns b""
  | enumv (name : String) (id : Int)
  | bits (bs : List Node)
  | kv (es : List (KvKey × Node))
  | kvTuple (es : List (KvKey × Node))
  | kvu (es : List (String × Node × Node))   -- dictionary key → (key node, value node)
  | tuple (keys : List String) (vals : List Node)
  | list (group : Bool) (xs : List Node)
  | alt (i : Nat) (clsName : String) (n : Node)
  | tagged (t : Nat) (name : String) (n : Node)
  | wrapped (n : Node)
  deriving Repr, Inhabited

/-- Python `dict` assignment on an association list: replace in place or append -/
def dictSet (d : List (Cbor × Cbor)) (k v : Cbor) : List (Cbor × Cbor) :=
  if d.any (fun e => e.1 == k) then d.map (fun e => if e.1 == k then (e.1, v) else e) else d ++ [(k, v)]

def dictUpdate (d : List (Cbor × Cbor)) (new : List (Cbor × Cbor)) : List (Cbor × Cbor) :=
  new.foldl (fun acc e => dictSet acc e.1 e.2) d

mutual
/-- what `deserialize_cbor(node.to_cbor())` gives the parent: the CBOR value of a node -/
def Node.toVal : Node → Cbor
  | .leaf v _ => v
  | .bchar s => .bstr (utf8 s)
  | .emptyRaw => .bstr []                 -- never consulted for a schema-conforming tree (only `toBytes` is)
  | .enumv _ id => Cbor.ofInt id
  | .bits bs => Cbor.ofInt (sumBits bs)
  | .kv es => .map (kvPairs es [])
  | .kvTuple es => .arr (kvFlat es)
  | .kvu es => .map (kvuPairs es [])
  | .tuple _ vals => .arr (valList vals)
  | .list group xs => .arr (if group then flatList xs else valList xs)
  | .alt _ _ n => n.toVal
  | .tagged t _ n => .tag t n.toVal
  | .wrapped n => .bstr n.toBytes
/-- `node.to_cbor()`: the encoding of `toVal`, except that `SuitEmptyBstr` yields no bytes and a union passes its
child's bytes through (written per constructor so that the recursion is structural) -/
def Node.toBytes : Node → Bytes
  | .emptyRaw => []
  | .alt _ _ n => n.toBytes
  | .leaf v _ => enc v
  | .bchar s => enc (.bstr (utf8 s))
  | .enumv _ id => enc (Cbor.ofInt id)
  | .bits bs => enc (Cbor.ofInt (sumBits bs))
  | .kv es => enc (.map (kvPairs es []))
  | .kvTuple es => enc (.arr (kvFlat es))
  | .kvu es => enc (.map (kvuPairs es []))
  | .tuple _ vals => enc (.arr (valList vals))
  | .list group xs => enc (.arr (if group then flatList xs else valList xs))
  | .tagged t _ n => enc (.tag t n.toVal)
  | .wrapped n => enc (.bstr n.toBytes)
def valList : List Node → List Cbor
  | [] => []
  | n :: ns => n.toVal :: valList ns
def flatList : List Node → List Cbor
  | [] => []
  | n :: ns => (match n.toVal with | .arr xs => xs | v => [v]) ++ flatList ns
def sumBits : List Node → Int
  | [] => 0
  | n :: ns => ((n.toVal).toInt?.getD 0) + sumBits ns
def kvPairs : List (KvKey × Node) → List (Cbor × Cbor) → List (Cbor × Cbor)
  | [], acc => acc
  | (k, n) :: rest, acc =>
    if k.merge then
      kvPairs rest (dictUpdate acc (match n.toVal with | .map m => m | _ => []))
    else kvPairs rest (dictSet acc (Cbor.ofInt k.id) n.toVal)
def kvFlat : List (KvKey × Node) → List Cbor
  | [] => []
  | (k, n) :: rest => Cbor.ofInt k.id :: n.toVal :: kvFlat rest
def kvuPairs : List (String × Node × Node) → List (Cbor × Cbor) → List (Cbor × Cbor)
  | [], acc => acc
  | (_, kn, vn) :: rest, acc => kvuPairs rest (dictSet acc kn.toVal vn.toVal)
end

end SuitVerif
