import SuitVerif.Cbor
/-! L3: model of `ncs/encrypt_script.py` (`Encryptor`) and `suit_generator/cmd_encrypt.py`.
AES-GCM is a parameter (`gcmEnc` with a decryption `gcmDec` assumed to invert it), the nonce source is an entropy
stream read sequentially (`os.urandom`). -/
namespace SuitVerif.Encrypt
open SuitVerif

/-- COSE Enc_structure `["Encrypt", protected, external_aad = h'']`, serialised -/
def encStructure (protectedBytes : Bytes) : Bytes :=
  enc (.arr [Cbor.text "Encrypt", .bstr protectedBytes, .bstr []])

/-- protected header of the COSE_Encrypt: `{1: 3}` (AES-GCM-256) -/
def protectedHeader : Bytes := enc (.map [(.uint 1, .uint 3)])

/-- `generate_suit_encryption_info`: `bstr .cbor #6.96([protected, {5: iv}, nil, [[h'', {1: kw, 4: bstr .cbor kid}, cek]]])`
(`cek = none` is Python `None`, encoded as nil) -/
def encryptionInfo (iv : Bytes) (cek : Option Bytes) (keyId kwAlg : Int) : Bytes :=
  enc (.bstr (enc (.tag 96 (.arr [
    .bstr protectedHeader,
    .map [(.uint 5, .bstr iv)],
    Cbor.null,
    .arr [.arr [.bstr [], .map [(.uint 1, Cbor.ofInt kwAlg), (.uint 4, .bstr (enc (Cbor.ofInt keyId)))],
                (match cek with | some c => .bstr c | none => Cbor.null)]]]))))

structure Artifacts where
  encryptedContent : Bytes     -- encrypted_content.bin = tag || ciphertext
  encryptionInfo : Bytes       -- suit_encryption_info.bin
  deriving Repr, DecidableEq

/-- `parse_encrypted_assets`: nonce (12) | tag (16) | ciphertext, by slicing -/
def splitAsset (asset : Bytes) : Bytes × Bytes × Bytes := (asset.take 12, (asset.drop 12).take 16, asset.drop 28)

/-- `generate-info`: artifacts for a supplied iv||tag||ciphertext blob -/
def generate (asset : Bytes) (cek : Option Bytes) (keyId kwAlg : Int) : Artifacts :=
  let (iv, tag, ct) := splitAsset asset
  { encryptedContent := tag ++ ct, encryptionInfo := encryptionInfo iv cek keyId kwAlg }

/-- AES-GCM as a parameter: key → nonce → aad → plaintext → (ciphertext, 16-byte tag) -/
abbrev GcmEnc := Bytes → Bytes → Bytes → Bytes → Bytes × Bytes

/-- the hard-coded Enc_structure bytes of `generate_kms_artifacts` (re-extracted into `Generated.Consts`) -/
structure Consts where
  aadLiteral : Bytes

/-- `encrypt-and-generate` with the direct key: the KMS draws the nonce, encrypts with the hard-coded AAD; the
asset handed on is nonce || tag || ciphertext -/
def encryptAndGenerate (c : Consts) (gcm : GcmEnc) (key nonce firmware : Bytes) (keyId : Int) : Artifacts :=
  let (ct, tag) := gcm key nonce c.aadLiteral firmware
  generate (nonce ++ tag ++ ct) none keyId (-6)

/-! ### C14: the entropy stream -/

/-- 12 bytes of the stream starting at `pos` -/
def window (ent : Nat → UInt8) (pos : Nat) : Bytes := (List.range 12).map (fun i => ent (pos + i))

/-- one `encrypt-and-generate` call at stream position `pos`: the nonce is the window drawn by this call -/
def step (c : Consts) (gcm : GcmEnc) (ent : Nat → UInt8) (key : Bytes) (pos : Nat) (firmware : Bytes) (keyId : Int) :
    Nat × Artifacts :=
  (pos + 12, encryptAndGenerate c gcm key (window ent pos) firmware keyId)

/-- a history of calls with the same key -/
def run (c : Consts) (gcm : GcmEnc) (ent : Nat → UInt8) (key : Bytes) : Nat → List (Bytes × Int) → List Artifacts
  | _, [] => []
  | pos, (fw, kid) :: rest =>
    let (pos', a) := step c gcm ent key pos fw kid
    a :: run c gcm ent key pos' rest

/-! ### Spec.C06: what a consumer reads out of the published artifacts -/

structure InfoView where
  protectedBytes : Bytes
  iv : Bytes
  keyId : Int
  kwAlg : Int
  cek : Option Bytes
  deriving Repr, DecidableEq

/-- strict reading of `suit_encryption_info.bin` -/
def readInfo (info : Bytes) : Option InfoView :=
  match decodeStrict info with
  | some (.bstr inner) =>
    match decodeStrict inner with
    | some (.tag 96 (.arr [.bstr prot, .map [(.uint 5, .bstr iv)], .simple 22,
        .arr [.arr [.bstr [], .map [(.uint 1, kw), (.uint 4, .bstr kid)], cekItem]]])) =>
      match kw.toInt?, (decodeStrict kid).bind Cbor.toInt? with
      | some kwv, some kidv =>
        (match cekItem with
         | .simple 22 => some { protectedBytes := prot, iv := iv, keyId := kidv, kwAlg := kwv, cek := none }
         | .bstr c => some { protectedBytes := prot, iv := iv, keyId := kidv, kwAlg := kwv, cek := some c }
         | _ => none)
      | _, _ => none
    | _ => none
  | _ => none

end SuitVerif.Encrypt
