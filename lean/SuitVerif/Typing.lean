import SuitVerif.Encode
/-! Typing of the trees `from_obj` builds: which node shape sits at which class of the schema.  Only the kinds the
digest argument (C01) and the wrapping argument (C02) look into carry information; every other kind is `opaque`. -/
namespace SuitVerif.Typing
open SuitVerif SuitVerif.Encode SuitVerif.Decode SuitVerif.Py


theorem KvKey.beq_iff (a b : KvKey) : (a == b) = true ↔ a = b := by
  cases a; cases b
  simp only [BEq.beq, instBEqKvKey.beq]
  simp

theorem inj_of_nodup_map {α β} (f : α → β) : ∀ (l : List α), (l.map f).Nodup → ∀ x ∈ l, ∀ y ∈ l, f x = f y → x = y := by
  intro l
  induction l with
  | nil => intro _ x hx; simp at hx
  | cons a rest ih =>
    intro h x hx y hy hf
    simp only [List.map_cons, List.nodup_cons, List.mem_map, not_exists, not_and] at h
    simp only [List.mem_cons] at hx hy
    rcases hx with rfl | hx <;> rcases hy with rfl | hy
    · rfl
    · exact absurd hf.symm (h.1 y hy)
    · exact absurd hf (h.1 x hx)
    · exact ih h.2 x hx y hy hf

def KeysDistinct (r : List (KvKey × Node)) : Prop := (r.map (·.1)).Nodup

theorem kvSet_keys (acc : List (KvKey × Node)) (k : KvKey) (v : Node) (h : KeysDistinct acc) :
    KeysDistinct (kvSet acc k v) := by
  unfold Decode.kvSet KeysDistinct at *
  split
  · have : (acc.map (fun e => if (e.1 == k) = true then (k, v) else e)).map (·.1) = acc.map (·.1) := by
      rw [List.map_map]
      apply List.map_congr_left
      intro e _
      simp only [Function.comp]
      split
      · rename_i he; exact ((KvKey.beq_iff _ _).mp he).symm
      · rfl
    rw [this]; exact h
  · rename_i hany
    rw [List.map_append, List.nodup_append]
    refine ⟨h, by simp, ?_⟩
    intro a ha b hb
    simp only [List.map_cons, List.map_nil, List.mem_singleton] at hb
    subst hb
    intro heq
    subst heq
    apply hany
    rw [List.any_eq_true]
    obtain ⟨e, he, hek⟩ := List.mem_map.mp ha
    exact ⟨e, he, (KvKey.beq_iff _ _).mpr hek⟩


def opaqueTy : Ty → Bool
  | .cbstr _ | .union _ | .tag _ _ _ | .keyValue _ _ | .tupleNamed _ | .digestExt _ | .enum _ | .hex | .bstr
  | .payloadMap _ _ | .keyValueUnnamed _ => false
  | _ => true

mutual
inductive HasTy (s : Schema) : Cls → Node → Prop
  | cbstr {c inner n} : s.ty c = some (.cbstr inner) → HasTy s inner n → HasTy s c (.wrapped n)
  | union {c alts i ci n} : s.ty c = some (.union alts) → alts[i]? = some ci → HasTy s ci n →
      HasTy s c (.alt i (s.name ci) n)
  | tag {c t name child n} : s.ty c = some (.tag t name child) → HasTy s child n → HasTy s c (.tagged t name n)
  | keyValue {c es emb r} : s.ty c = some (.keyValue es emb) → KvTy s es r → KeysDistinct r → HasTy s c (.kv r)
  | tupleNamed {c es ns} : s.ty c = some (.tupleNamed es) → TupleTy s es ns → HasTy s c (.tuple (es.map (·.1)) ns)
  | digestExt {c raw n} : s.ty c = some (.digestExt raw) → HasTy s raw n → HasTy s c n
  | enumv {c es e} : s.ty c = some (.enum es) → e ∈ es → HasTy s c (.enumv e.1 e.2)
  | enumNull {c es} : s.ty c = some (.enum es) → HasTy s c (.leaf Cbor.null .plain)
  | hex {c b} : (s.ty c = some .hex ∨ s.ty c = some .bstr) → HasTy s c (.leaf (.bstr b) .hex)
  | payloadMap {c kc vc r} : s.ty c = some (.payloadMap kc vc) → KvuTy s kc r → HasTy s c (.kvu r)
  | keyValueUnnamed {c es r} : s.ty c = some (.keyValueUnnamed es) → HasTy s c (.kvu r)
  | opaque {c ty n} : s.ty c = some ty → opaqueTy ty = true → HasTy s c n
inductive KvTy (s : Schema) : List Entry → List (KvKey × Node) → Prop
  | nil {es} : KvTy s es []
  | cons {es e n rest} : e ∈ es → HasTy s e.cls n → KvTy s es rest → KvTy s es ((entryKey e, n) :: rest)
inductive TupleTy (s : Schema) : List (String × Cls) → List Node → Prop
  | nil : TupleTy s [] []
  | field {k c n es ns} : HasTy s c n → TupleTy s es ns → TupleTy s ((k, c) :: es) (n :: ns)
  | star {k c ms es ns} : k.endsWith "*" = true → TupleTy s es ns → TupleTy s ((k, c) :: es) (ms ++ ns)
inductive KvuTy (s : Schema) : Cls → List (String × Node × Node) → Prop
  | nil {kc} : KvuTy s kc []
  | cons {kc k kn vn rest} : (s.ty kc = some .tstr → kn = .leaf (Cbor.text k) .plain) → KvuTy s kc rest →
      KvuTy s kc ((k, kn, vn) :: rest)
end


theorem KvTy.append {s es a b} (ha : KvTy s es a) (hb : KvTy s es b) : KvTy s es (a ++ b) := by
  induction a with
  | nil => simpa using hb
  | cons p rest ih =>
    cases ha with
    | cons he hn hr => exact .cons he hn (ih hr)

theorem KvTy.kvSet {s es acc e n} (h : KvTy s es acc) (he : e ∈ es) (hn : HasTy s e.cls n) :
    KvTy s es (kvSet acc (entryKey e) n) := by
  unfold Decode.kvSet
  split
  · rename_i hany; clear hany
    induction acc with
    | nil => exact .nil
    | cons p rest ih =>
      cases h with
      | cons he' hn' hr =>
        simp only [List.map_cons]
        split
        · exact .cons he hn (ih hr)
        · exact .cons he' hn' (ih hr)
  · exact h.append (.cons he hn .nil)

theorem KvuTy.append {s kc a b} (ha : KvuTy s kc a) (hb : KvuTy s kc b) : KvuTy s kc (a ++ b) := by
  induction a with
  | nil => simpa using hb
  | cons p rest ih =>
    cases ha with
    | cons hk hr => exact .cons hk (ih hr)

theorem KvuTy.strSet {s kc acc k kn vn} (h : KvuTy s kc acc)
    (hk : s.ty kc = some .tstr → kn = .leaf (Cbor.text k) .plain) : KvuTy s kc (strSet acc k (kn, vn)) := by
  unfold Decode.strSet
  split
  · rename_i hany; clear hany
    induction acc with
    | nil => exact .nil
    | cons p rest ih =>
      cases h with
      | cons hk' hr =>
        simp only [List.map_cons]
        split
        · exact .cons hk (ih hr)
        · exact .cons hk' (ih hr)
  · exact h.append (.cons hk .nil)

/-- the non-recursive kinds -/
theorem leaf_typed (cx : Ctx) (c : Cls) (ty : Ty) (o : Obj) (n : Node) (hty : cx.schema.ty c = some ty)
    (h : leafFromObj cx ty o = some (.ok n)) : HasTy cx.schema c n := by
  cases ty <;> simp only [leafFromObj, Option.some.injEq, reduceCtorEq] at h
  all_goals first
    | exact .opaque hty rfl
    | skip
  -- bstr
  · cases hb : hexOfObj o with
    | error e => simp [hb, bind, Except.bind] at h
    | ok b => simp [hb, bind, Except.bind, pure, Except.pure] at h; subst h; exact .hex (Or.inr hty)
  -- hex
  · cases hb : hexOfObj o with
    | error e => simp [hb, bind, Except.bind] at h
    | ok b => simp [hb, bind, Except.bind, pure, Except.pure] at h; subst h; exact .hex (Or.inl hty)
  -- enum
  · rename_i es
    cases o <;> simp at h
    · subst h; exact .enumNull hty
    · rename_i str
      cases hf : es.find? (fun e => e.1 == str) with
      | none => simp [hf] at h
      | some e => simp [hf] at h; subst h; exact .enumv hty (List.mem_of_find?_eq_some hf)


def P (cx : Ctx) (fuel : Nat) : Prop :=
  (∀ c o n, fromObj cx fuel c o = .ok n → HasTy cx.schema c n) ∧
  (∀ alts i o n, fromObjAlts cx fuel alts i o = .ok n →
      ∃ j ci m, alts[j]? = some ci ∧ n = .alt (i + j) (cx.schema.name ci) m ∧ HasTy cx.schema ci m) ∧
  (∀ es kvs ns, fromObjTuple cx fuel es kvs = .ok ns → TupleTy cx.schema es ns) ∧
  (∀ es kvs acc r, fromObjKv cx fuel es kvs acc = .ok r → KvTy cx.schema es acc → KvTy cx.schema es r) ∧
  (∀ kc vc kvs acc r, fromObjPayloads cx fuel kc vc kvs acc = .ok r → KvuTy cx.schema kc acc → KvuTy cx.schema kc r)

theorem bind_ok {α β} {x : R α} {f : α → R β} {b : β} (h : (x >>= f) = .ok b) : ∃ a, x = .ok a ∧ f a = .ok b := by
  cases x with
  | error e => simp [bind, Except.bind] at h
  | ok a => exact ⟨a, rfl, by simpa [bind, Except.bind] using h⟩

theorem fromObjKv_keys (cx : Ctx) : ∀ (fuel : Nat) (es : List Entry) (kvs : List (String × Obj)) (acc r : List (KvKey × Node)),
    fromObjKv cx fuel es kvs acc = .ok r → KeysDistinct acc → KeysDistinct r := by
  intro fuel
  induction fuel with
  | zero => intro es kvs acc r h; simp [fromObjKv] at h
  | succ fuel ih =>
    intro es kvs acc r h hacc
    unfold fromObjKv at h
    cases kvs with
    | nil => simp at h; subst h; exact hacc
    | cons p rest =>
      obtain ⟨k, x⟩ := p
      dsimp only at h
      split at h
      · simp at h
      · obtain ⟨n, _, h⟩ := bind_ok h
        exact ih _ _ _ _ h (kvSet_keys _ _ _ hacc)


theorem fromObj_tstr (cx : Ctx) (fuel : Nat) (kc : Cls) (k : String) (kn : Node)
    (h : fromObj cx fuel kc (.str k) = .ok kn) (hty : cx.schema.ty kc = some .tstr) : kn = .leaf (Cbor.text k) .plain := by
  cases fuel with
  | zero => simp [fromObj] at h
  | succ fuel =>
    unfold fromObj at h
    simp [hty, leafFromObj, scalarOk, scalarVal] at h
    exact h.symm

theorem typed_step (cx : Ctx) (fuel : Nat) (ih : P cx fuel) : P cx (fuel + 1) := by
  obtain ⟨ih1, ih2, ih3, ih4, ih5⟩ := ih
  refine ⟨?_, ?_, ?_, ?_, ?_⟩
  · intro c o n h
    unfold fromObj at h
    cases hty : cx.schema.ty c with
    | none => simp [hty] at h
    | some ty =>
      simp only [hty] at h
      cases hl : leafFromObj cx ty o with
      | some r =>
        simp only [hl] at h
        subst h
        exact leaf_typed cx c ty o n hty hl
      | none =>
        simp only [hl] at h
        cases ty <;> simp only [leafFromObj, reduceCtorEq] at hl
        case cbstr inner =>
          obtain ⟨m, hm, hp⟩ := bind_ok h
          simp only [pure, Except.pure, Except.ok.injEq] at hp
          subst hp
          exact .cbstr hty (ih1 _ _ _ hm)
        case union alts =>
          obtain ⟨j, ci, m, hj, hn, hm⟩ := ih2 _ _ _ _ h
          subst hn
          simpa using HasTy.union hty hj hm
        case tag t name child =>
          cases o <;> simp only [reduceCtorEq] at h
          rename_i kvs
          cases hg : Obj.get? name kvs with
          | none => simp [hg] at h
          | some x =>
            simp only [hg] at h
            obtain ⟨m, hm, hp⟩ := bind_ok h
            simp only [pure, Except.pure, Except.ok.injEq] at hp
            subst hp
            exact .tag hty (ih1 _ _ _ hm)
        case tupleNamed es =>
          cases o <;> simp only [reduceCtorEq] at h
          obtain ⟨ns, hm, hp⟩ := bind_ok h
          simp only [pure, Except.pure, Except.ok.injEq] at hp
          subst hp
          exact .tupleNamed hty (ih3 _ _ _ hm)
        case keyValue es emb =>
          cases o <;> simp only [reduceCtorEq] at h
          obtain ⟨r, hm, hp⟩ := bind_ok h
          simp only [pure, Except.pure, Except.ok.injEq] at hp
          subst hp
          exact .keyValue hty (ih4 _ _ _ _ hm .nil) (fromObjKv_keys cx fuel _ _ _ _ hm (by simp [KeysDistinct]))
        case payloadMap kc vc =>
          cases o <;> simp only [reduceCtorEq] at h
          obtain ⟨r, hm, hp⟩ := bind_ok h
          simp only [pure, Except.pure, Except.ok.injEq] at hp
          subst hp
          exact .payloadMap hty (ih5 _ _ _ _ _ hm .nil)
        case keyValueUnnamed es =>
          cases o <;> simp only [reduceCtorEq] at h
          obtain ⟨r, hm, hp⟩ := bind_ok h
          simp only [pure, Except.pure, Except.ok.injEq] at hp
          subst hp
          exact .keyValueUnnamed hty
        case digestExt raw =>
          have key : ∀ X, fromObj cx fuel raw X = .ok n → HasTy cx.schema c n :=
            fun X hX => .digestExt hty (ih1 _ _ _ hX)
          dsimp only at h
          iterate 14 (all_goals (try (first
            | exact key _ h
            | (simp only [reduceCtorEq] at h; done)
            | split at h
            | (obtain ⟨_, _, h⟩ := bind_ok h))))
        all_goals exact .opaque hty rfl
  · intro alts i o n h
    unfold fromObjAlts at h
    cases alts with
    | nil => simp at h
    | cons c cs =>
      dsimp only at h
      split at h
      · rename_i m hm
        simp only [Except.ok.injEq] at h
        subst h
        exact ⟨0, c, m, rfl, by simp, ih1 _ _ _ hm⟩
      · obtain ⟨j, ci, m, hj, hn, hm⟩ := ih2 _ _ _ _ h
        exact ⟨j + 1, ci, m, by simpa using hj, by rw [hn]; congr 1; omega, hm⟩
      · simp at h
  · intro es kvs ns h
    unfold fromObjTuple at h
    cases es with
    | nil => simp at h; subst h; exact .nil
    | cons e es =>
      obtain ⟨k, c⟩ := e
      dsimp only at h
      split at h
      · obtain ⟨n, hn, h⟩ := bind_ok h
        obtain ⟨more, hmore, h⟩ := bind_ok h
        simp only [pure, Except.pure, Except.ok.injEq] at h
        subst h
        exact .field (ih1 _ _ _ hn) (ih3 _ _ _ hmore)
      · split at h
        · rename_i hstar
          obtain ⟨ms, _, h⟩ := bind_ok h
          obtain ⟨more, hmore, h⟩ := bind_ok h
          simp only [pure, Except.pure, Except.ok.injEq] at h
          subst h
          exact .star hstar (ih3 _ _ _ hmore)
        · simp at h
  · intro es kvs acc r h hacc
    unfold fromObjKv at h
    cases kvs with
    | nil => simp at h; subst h; exact hacc
    | cons p rest =>
      obtain ⟨k, x⟩ := p
      dsimp only at h
      split at h
      · simp at h
      · rename_i e hf
        obtain ⟨n, hn, h⟩ := bind_ok h
        exact ih4 _ _ _ _ h (hacc.kvSet (List.mem_of_find?_eq_some hf) (ih1 _ _ _ hn))
  · intro kc vc kvs acc r h hacc
    unfold fromObjPayloads at h
    cases kvs with
    | nil => simp at h; subst h; exact hacc
    | cons p rest =>
      obtain ⟨k, x⟩ := p
      dsimp only at h
      split at h
      · simp at h
      · split at h
        · simp at h
        · split at h
          · rename_i kn hkn
            split at h
            · exact ih5 _ _ _ _ _ h (hacc.strSet (fun hty => fromObj_tstr cx fuel kc k kn hkn hty))
            · simp at h
          · simp at h

theorem typed_all (cx : Ctx) : ∀ fuel, P cx fuel := by
  intro fuel
  induction fuel with
  | zero =>
    refine ⟨?_, ?_, ?_, ?_, ?_⟩
    · intro c o n h; simp [fromObj] at h
    · intro alts i o n h; simp [fromObjAlts] at h
    · intro es kvs ns h; simp [fromObjTuple] at h
    · intro es kvs acc r h; simp [fromObjKv] at h
    · intro kc vc kvs acc r h; simp [fromObjPayloads] at h
  | succ fuel ih => exact typed_step cx fuel ih

/-- **Typing.** Whatever `from_obj` builds for class `c` has the node shape the schema prescribes for `c`
(any schema, file system, hash, description, fuel). -/
theorem fromObj_typed (cx : Ctx) (fuel : Nat) (c : Cls) (o : Obj) (n : Node) (h : fromObj cx fuel c o = .ok n) :
    HasTy cx.schema c n := (typed_all cx fuel).1 c o n h


/-! ### inversion -/

theorem inv_tag {s c n t name child} (h : HasTy s c n) (hty : s.ty c = some (.tag t name child)) :
    ∃ m, n = .tagged t name m ∧ HasTy s child m := by
  cases h <;> simp_all [opaqueTy]
  all_goals first
    | (rename_i h1 h2; obtain ⟨rfl, rfl, rfl⟩ := h1; exact h2)
    | skip

theorem inv_cbstr {s c n inner} (h : HasTy s c n) (hty : s.ty c = some (.cbstr inner)) :
    ∃ m, n = .wrapped m ∧ HasTy s inner m := by
  cases h <;> simp_all [opaqueTy]

theorem inv_kv {s c n es emb} (h : HasTy s c n) (hty : s.ty c = some (.keyValue es emb)) :
    ∃ r, n = .kv r ∧ KvTy s es r ∧ KeysDistinct r := by
  cases h <;> simp_all [opaqueTy]

theorem inv_tuple {s c n es} (h : HasTy s c n) (hty : s.ty c = some (.tupleNamed es)) :
    ∃ ns, n = .tuple (es.map (·.1)) ns ∧ TupleTy s es ns := by
  cases h <;> simp_all [opaqueTy]

theorem inv_union {s c n alts} (h : HasTy s c n) (hty : s.ty c = some (.union alts)) :
    ∃ i ci m, alts[i]? = some ci ∧ n = .alt i (s.name ci) m ∧ HasTy s ci m := by
  cases h <;> simp_all [opaqueTy]
  rename_i alts' i ci m hi hm _
  subst hty
  exact ⟨i, ci, hi, m, ⟨rfl, rfl, rfl⟩, hm⟩

theorem inv_digestExt {s c n raw} (h : HasTy s c n) (hty : s.ty c = some (.digestExt raw)) : HasTy s raw n := by
  cases h <;> simp_all [opaqueTy]

theorem inv_enum {s c n es} (h : HasTy s c n) (hty : s.ty c = some (.enum es)) :
    (∃ e, e ∈ es ∧ n = .enumv e.1 e.2) ∨ n = .leaf Cbor.null .plain := by
  cases h <;> simp_all [opaqueTy]

theorem inv_hex {s c n} (h : HasTy s c n) (hty : s.ty c = some .hex ∨ s.ty c = some .bstr) :
    ∃ b, n = .leaf (.bstr b) .hex := by
  cases h <;> rcases hty with hty | hty <;> simp_all [opaqueTy]
  all_goals (rename_i ty ho heq; subst heq; simp at ho)

theorem inv_payloadMap {s c n kc vc} (h : HasTy s c n) (hty : s.ty c = some (.payloadMap kc vc)) :
    ∃ r, n = .kvu r ∧ KvuTy s kc r := by
  cases h <;> simp_all [opaqueTy]


theorem inv_kvu {s c n es} (h : HasTy s c n) (hty : s.ty c = some (.keyValueUnnamed es)) : ∃ r, n = .kvu r := by
  cases h <;> simp_all [opaqueTy]

end SuitVerif.Typing
