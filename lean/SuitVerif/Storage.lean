import SuitVerif.Encode
import SuitVerif.IHex
/-! L3: model of `image boot` (`cmd_image.py`: `EnvelopeStorage`, `ImageCreator.create_files_for_boot`),
`SuitEnvelope.sever` (`envelope.py`) and the build-configuration parser (`build_configuration/configuration.py`). -/
namespace SuitVerif.Storage
open SuitVerif SuitVerif.IHex

structure Slot where
  role : String
  offset : Nat
  size : Nat
  domain : String
  deriving Repr, BEq, DecidableEq

inductive Err where
  | generatorError (what : String)
  | suit (e : Py.Err)              -- parse / re-create of an input envelope failed
  | keyError                       -- kconfig: missing CLASS_NAME / unknown role name
  | internal (k : String)
  deriving Repr, BEq

abbrev R := Except Err

/-- `SuitEnvelope.sever`: drop the severable members and the integrated payloads / dependencies from the description -/
def severedNames : List String := ["suit-payload-fetch", "suit-install", "suit-dependency-resolution",
  "suit-candidate-verification", "suit-text", "suit-integrated-payloads", "suit-integrated-dependencies"]

def sever (o : Obj) : Obj :=
  match o with
  | .dict top => .dict (top.map (fun e =>
      if e.1 = "SUIT_Envelope_Tagged" then
        (e.1, match e.2 with
          | .dict kvs => .dict (kvs.filter (fun kv => !severedNames.contains kv.1))
          | x => x)
      else e))
  | x => x

/-- first position at which `pat` occurs in `s` (`bytes.find`); `none` = −1 -/
def findSub (pat : Bytes) : Bytes → Nat → Option Nat
  | [], i => if pat.isEmpty then some i else none
  | c :: rest, i => if pat.isPrefixOf (c :: rest) then some i else findSub pat rest (i + 1)

/-- Python slice `s[a:a+16]` -/
def slice16 (s : Bytes) (a : Nat) : Bytes := (s.drop a).take 16

/-- role assignments: class-id (16 bytes) → role, later assignments of the same class id replace earlier ones -/
def tblSet (tbl : List (Bytes × String)) (cid : Bytes) (role : String) : List (Bytes × String) :=
  if tbl.any (fun e => e.1 == cid) then tbl.map (fun e => if e.1 == cid then (cid, role) else e) else tbl ++ [(cid, role)]

def assign (sha1 : Bytes → Bytes) (tbl : List (Bytes × String)) (vendor cls role : String) : List (Bytes × String) :=
  tblSet tbl (Uuid.cid sha1 (utf8 vendor) (utf8 cls)) role

def assignAll (sha1 : Bytes → Bytes) (tbl : List (Bytes × String)) (as : List (String × String × String)) : List (Bytes × String) :=
  as.foldl (fun t a => assign sha1 t a.1 a.2.1 a.2.2) tbl

structure Stored where
  role : String
  bytes : Bytes           -- the CBOR slot map, unpadded
  deriving Repr, BEq

/-- `EnvelopeStorage.add_envelope` for one input envelope file -/
def addEnvelope (cx : Encode.Ctx) (layout : List Slot) (tbl : List (Bytes × String)) (stored : List Stored)
    (file : Bytes) : R (List Stored) :=
  match Decode.parse cx.guards cx.schema file with
  | .error e => .error (.suit e)
  | .ok desc =>
    let sv := sever desc
    match Encode.createTop cx sv with
    | .error e => .error (.suit e)
    | .ok severed =>
      -- the manifest component id of the description
      let cid : Option Obj := match sv with
        | .dict top => match Obj.get? "SUIT_Envelope_Tagged" top with
          | some (.dict kvs) => match Obj.get? "suit-manifest" kvs with
            | some (.dict m) => Obj.get? "suit-manifest-component-id" m
            | _ => none
          | _ => none
        | _ => none
      match cid with
      | none => .error (.generatorError "component-id")
      | some cidObj =>
        -- SuitManifest.from_obj({"suit-manifest-component-id": cid}).to_cbor()[1:]
        let manifestCls := cx.schema.classes.findIdx? (fun c => c.1 == "SuitManifest" && (match c.2 with | .keyValue _ _ => true | _ => false))
        match manifestCls with
        | none => .error (.internal "schema")
        | some mc =>
          match Encode.fromObj cx (Encode.objBudget cx.schema cidObj + 8) mc (.dict [("suit-manifest-component-id", cidObj)]) with
          | .error e => .error (.suit e)
          | .ok node =>
            let pattern := node.toBytes.drop 1
            let found : Int := match findSub pattern severed 0 with | some i => i | none => -1
            let off : Int := found + 16
            let offN := off.toNat
            let slotMap := enc (.map [(.uint 0, .uint 1), (.uint 1, Cbor.ofInt off), (.uint 2, .bstr severed)])
            let classId := slice16 severed offN
            match tbl.find? (fun e => e.1 == classId) with
            | none => .error (.generatorError "role")
            | some (_, role) =>
              match layout.find? (fun s => s.role == role) with
              | none => .error (.generatorError "slot")
              | some slot =>
                if slot.size < slotMap.length then .error (.generatorError "fit")
                else if stored.any (fun s => s.role == role) then .error (.generatorError "duplicate")
                else .ok (stored ++ [{ role := role, bytes := slotMap }])

def padFF (size : Nat) (b : Bytes) : Bytes := b ++ List.replicate (size - b.length) 0xFF

/-- `as_intelhex(domain)`: the slots of that domain, in layout order, at base + offset, padded with 0xFF -/
def domainImage (layout : List Slot) (base : Nat) (stored : List Stored) (domain : String) : Image :=
  layout.filterMap (fun s =>
    if s.domain == domain then
      (stored.find? (fun e => e.role == s.role)).map (fun e => (base + s.offset, padFF s.size e.bytes))
    else none)

/-- `create_files_for_boot`: all envelopes are added first; then one image per domain that has an envelope -/
def boot (cx : Encode.Ctx) (layout : List Slot) (domains : List String) (tbl : List (Bytes × String)) (base : Nat)
    (files : List Bytes) : R (List (String × Image)) := do
  let stored ← files.foldlM (fun st f => addEnvelope cx layout tbl st f) []
  pure (domains.filterMap (fun d =>
    let img := domainImage layout base stored d
    if img.isEmpty then none else some (d, img)))

/-! ### build configuration (`.config`) -/

inductive KVal where
  | bool | int (n : Nat) | str (s : String)
  deriving Repr, BEq, DecidableEq

def isNameChar (c : Char) : Bool := c.isAlphanum || c = '_'

/-- one line: `NAME=value` at the start of the line (`re.match`) -/
def parseLine (line : List Char) : Option (String × KVal) :=
  let name := line.takeWhile isNameChar
  match line.drop name.length with
  | '=' :: value =>
    if name.isEmpty then none else
    let v := value.takeWhile (· ≠ '\n')
    let kv : KVal :=
      if v = ['y'] then .bool
      else if v.take 2 = ['0', 'x'] ∧ (v.drop 2).all (fun c => (hexVal c).isSome) then
        .int ((v.drop 2).foldl (fun acc c => acc * 16 + (hexVal c).getD 0) 0)
      else if v.head? = some '"' ∧ v.getLast? = some '"' ∧ v.length ≥ 1 then
        .str (String.ofList ((v.drop 1).take (v.length - 2)))
      else if !v.isEmpty ∧ v.all Char.isDigit then .int (v.foldl (fun acc c => acc * 10 + (c.toNat - 48)) 0)
      else .str (String.ofList v)
    some (String.ofList name, kv)
  | _ => none

def splitLinesKeep (cs : List Char) : List (List Char) :=
  let rec go (cur : List Char) (acc : List (List Char)) : List Char → List (List Char)
    | [] => (if cur.isEmpty then acc else cur.reverse :: acc).reverse
    | c :: rest => if c = '\n' then go [] ((c :: cur).reverse :: acc) rest else go (c :: cur) acc rest
  go [] [] cs

/-- the configuration dictionary (a later assignment of the same name replaces the earlier one, keeping its position) -/
def parseConfig (text : String) : List (String × KVal) :=
  (splitLinesKeep text.toList).foldl (fun d line =>
    match parseLine line with
    | some (k, v) => if d.any (fun e => e.1 == k) then d.map (fun e => if e.1 == k then (k, v) else e) else d ++ [(k, v)]
    | none => d) []

def vendorKeyRole (key : String) : Option String :=
  let pre := "SB_CONFIG_SUIT_MPI_".toList
  let suf := "_VENDOR_NAME".toList
  let k := key.toList
  if pre.isPrefixOf k ∧ suf.isSuffixOf k ∧ k.length > pre.length + suf.length then
    let mid := (k.drop pre.length).take (k.length - pre.length - suf.length)
    if mid.all (fun c => c.isUpper || ('1' ≤ c && c ≤ '9') || c = '_') then some (String.ofList mid) else none
  else none

/-- `_get_role_assignments_from_kconfig`: (vendor, class, role) triples; a vendor/class pair given to two roles is
rejected; a missing class name or an unknown role is a KeyError -/
def kconfigAssignments (roles : List String) (cfg : List (String × KVal)) : R (List (String × String × String)) :=
  cfg.foldlM (fun acc e =>
    match vendorKeyRole e.1 with
    | none => pure acc
    | some manifest =>
      match e.2, (cfg.find? (fun x => x.1 == "SB_CONFIG_SUIT_MPI_" ++ manifest ++ "_CLASS_NAME")).map (·.2) with
      | .str vendor, some (.str cls) =>
        if acc.any (fun a => a.1 == vendor && a.2.1 == cls) then .error (.generatorError "duplicate-vid-cid")
        else
          let role := if manifest == "ROOT" then "APP_ROOT" else manifest
          if roles.contains role then pure (acc ++ [(vendor, cls, role)]) else .error .keyError
      | _, none => .error .keyError
      | _, _ => .error (.internal "TypeError")) []

end SuitVerif.Storage
