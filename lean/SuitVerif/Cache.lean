import SuitVerif.Cbor
/-! L3: model of `suit_generator/cmd_cache_create.py` (`CachePartition`): padding, slots, close, merge,
and the verifier's own reader of cache files (`walk`), used by `Spec.C10`. -/
namespace SuitVerif.Cache
open SuitVerif

inductive Err where
  | valueError      -- ValueError (duplicate URI, padding too large)
  | overflow        -- OverflowError: payload length does not fit 4 bytes
  | zeroDiv         -- ZeroDivisionError: erase-block size 0
  | decode          -- cbor2 decode error while merging
  deriving Repr, DecidableEq

/-- `math.ceil(n / eb) * eb` (exact for `n < 2^53`, the domain of the model). -/
def roundUp (eb n : Nat) : Nat := (n + eb - 1) / eb * eb

def zeros (n : Nat) : Bytes := List.replicate n 0

/-- `CachePartition.add_padding`. -/
def addPadding (eb : Nat) (data : Bytes) : Except Err Bytes :=
  if eb = 0 then .error .zeroDiv else
  let r := roundUp eb data.length
  let pad := r - data.length
  let pad := if pad = 1 then pad + eb else pad
  if pad = 0 then .ok data
  else if pad ≤ 23 then .ok (data ++ [0x60, UInt8.ofNat (0x40 + (pad - 2))] ++ zeros (pad - 2))
  else if pad ≤ 0xFFFF then .ok (data ++ [0x60, 0x59] ++ beBytes 2 (pad - 4) ++ zeros (pad - 4))
  else .error .valueError

structure State where
  first : Bool := true
  data : Bytes := []
  uris : List Bytes := []    -- URIs as UTF-8 bytes (Python `str` equality = equality of the UTF-8 bytes)

/-- the unpadded bytes of one slot: optional opening `BF`, the URI as a text string, `5A` + 4-byte length, payload -/
def slotBytes (first : Bool) (uri : Bytes) (payload : Bytes) : Bytes :=
  (if first then [0xBF] else []) ++ enc (.tstr uri) ++ [0x5A] ++ beBytes 4 payload.length ++ payload

/-- `CachePartition.add_cache_slot`. -/
def addSlot (eb : Nat) (s : State) (uri : Bytes) (payload : Bytes) : Except Err State :=
  if s.uris.contains uri then .error .valueError
  else if 2 ^ 32 ≤ payload.length then .error .overflow
  else do
    let padded ← addPadding eb (slotBytes s.first uri payload)
    pure { first := false, data := s.data ++ padded, uris := s.uris ++ [uri] }

def addSlots (eb : Nat) (s : State) : List (Bytes × Bytes) → Except Err State
  | [] => .ok s
  | (u, p) :: rest => do
    let s' ← addSlot eb s u p
    addSlots eb s' rest

/-- `close_and_save_cache`: the bytes written to the output file. -/
def close (s : State) : Bytes := s.data ++ [0xFF]

/-- `cache_create from_payloads`: the whole file for a list of (URI, payload) pairs. -/
def fromPayloads (eb : Nat) (slots : List (Bytes × Bytes)) : Except Err Bytes := do
  let s ← addSlots eb {} slots
  pure (close s)

/-! ### the verifier's reader: walk a cache file entry by entry, with byte offsets -/

structure Item where
  offset : Nat          -- offset of the entry's key in the file
  key : Bytes           -- UTF-8 bytes of the key
  fixed4 : Bool         -- value head is `5A` + 4 bytes
  value : Bytes
  deriving Repr, DecidableEq

/-- entries of an indefinite-length map body up to the terminating `FF` (which must be the last byte);
`total` is the file length, so an entry that starts with `bs` remaining sits at offset `total - bs.length`. -/
def walk (total : Nat) : Nat → Bytes → Option (List Item)
  | 0, _ => none
  | fuel+1, bs =>
    if bs = [0xFF] then some [] else
    match decHead false bs with
    | some (3, kn, r1) =>
      if r1.length < kn then none else
      match decHead false (r1.drop kn) with
      | some (2, vn, r3) =>
        if r3.length < vn then none else
        match walk total fuel (r3.drop vn) with
        | some items =>
          some ({ offset := total - bs.length, key := r1.take kn,
                  fixed4 := (r1.drop kn).head? == some 0x5A, value := r3.take vn } :: items)
        | none => none
      | _ => none
    | _ => none

/-- a whole cache file: `BF`, entries, `FF`. -/
def readCache (b : Bytes) : Option (List Item) :=
  match b with
  | 0xBF :: rest => walk b.length (b.length + 1) rest
  | _ => none

/-- what `cbor2.loads` returns for a cache file, as an ordered dictionary (a later duplicate key keeps the
first position and takes the later value). -/
def dictInsert (d : List (Bytes × Bytes)) (k v : Bytes) : List (Bytes × Bytes) :=
  if d.any (·.1 == k) then d.map (fun e => if e.1 == k then (k, v) else e) else d ++ [(k, v)]

def loadsCache (b : Bytes) : Option (List (Bytes × Bytes)) :=
  (readCache b).map (fun items => items.foldl (fun d it => dictInsert d it.key it.value) [])

/-- `merge_single_cache_file`: decode, skip empty keys, re-add. -/
def mergeFile (eb : Nat) (s : State) (file : Bytes) : Except Err State :=
  match loadsCache file with
  | none => .error .decode
  | some d => addSlots eb s (d.filter (fun e => e.1 ≠ []))

def mergeFiles (eb : Nat) (s : State) : List Bytes → Except Err State
  | [] => .ok s
  | f :: rest => do
    let s' ← mergeFile eb s f
    mergeFiles eb s' rest

/-- `cache_create merge`. -/
def merge (eb : Nat) (files : List Bytes) : Except Err Bytes := do
  let s ← mergeFiles eb {} files
  pure (close s)

/-! ### Spec.C10: the property as an executable predicate on the observable bytes -/

/-- Walk the map body and check it against the expected (URI, payload) list at the same time:
an empty-key entry must be zero-filled; any other entry must be the next expected pair, with its length in
the fixed `5A` + 4-byte form, and - unless it is the first slot - start at a multiple of `eb`;
the terminating `FF` must be the last byte and arrive exactly when the expected list is exhausted. -/
def checkWalk (eb total : Nat) : Nat → List (Bytes × Bytes) → Bool → Bytes → Bool
  | 0, _, _, _ => false
  | fuel+1, ex, first, bs =>
    if bs = [0xFF] then ex.isEmpty else
    match decHead false bs with
    | some (3, kn, r1) =>
      if r1.length < kn then false else
      match decHead false (r1.drop kn) with
      | some (2, vn, r3) =>
        if r3.length < vn then false else
        if r1.take kn = [] then
          (r3.take vn).all (· == 0) && checkWalk eb total fuel ex first (r3.drop vn)
        else
          match ex with
          | [] => false
          | (u, p) :: ex' =>
            r1.take kn == u && r3.take vn == p && (r1.drop kn).head? == some 0x5A
            && (first || (total - bs.length) % eb == 0)
            && checkWalk eb total fuel ex' false (r3.drop vn)
      | _ => false
    | _ => false

/-- The file is `BF`, then exactly `slots` (in order, non-empty URIs) interleaved with zero-filled
empty-key entries, then `FF`; payload lengths in 4-byte form; every slot after the first aligned to `eb`. -/
def check (eb : Nat) (slots : List (Bytes × Bytes)) (out : Bytes) : Bool :=
  match out with
  | 0xBF :: rest => !slots.isEmpty && checkWalk eb out.length (out.length + 1) slots true rest
  | _ => false

end SuitVerif.Cache
