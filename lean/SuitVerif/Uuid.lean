import SuitVerif.Bytes
/-! RFC 4122 version-5 UUIDs as `uuid.uuid5` computes them, parametric in the SHA-1 function. -/
namespace SuitVerif.Uuid
open SuitVerif

/-- `uuid.NAMESPACE_DNS.bytes` = 6ba7b810-9dad-11d1-80b4-00c04fd430c8 -/
def namespaceDNS : Bytes :=
  [0x6b, 0xa7, 0xb8, 0x10, 0x9d, 0xad, 0x11, 0xd1, 0x80, 0xb4, 0x00, 0xc0, 0x4f, 0xd4, 0x30, 0xc8]

def setVersion (h : Bytes) : Bytes :=
  (h.take 16).mapIdx (fun i b =>
    if i = 6 then (b &&& 0x0f) ||| 0x50 else if i = 8 then (b &&& 0x3f) ||| 0x80 else b)

/-- `uuid.uuid5(namespace, name).bytes` with `name` given as its UTF-8 bytes -/
def uuid5 (sha1 : Bytes → Bytes) (ns name : Bytes) : Bytes := setVersion (sha1 (ns ++ name))

/-- vendor id: `uuid5(NAMESPACE_DNS, vendor)` -/
def vid (sha1 : Bytes → Bytes) (vendor : Bytes) : Bytes := uuid5 sha1 namespaceDNS vendor
/-- class id: `uuid5(vid, class)` -/
def cid (sha1 : Bytes → Bytes) (vendor cls : Bytes) : Bytes := uuid5 sha1 (vid sha1 vendor) cls

end SuitVerif.Uuid
