import Lean
/-! `#audit_json <namespace>`: print, as one JSON object, every theorem under the namespace with the axioms
its proof depends on (transitively, `Lean.collectAxioms`).  Used by the harness on every run. -/
open Lean Elab Command

elab "#audit_json " pfx:ident : command => do
  let env ← getEnv
  let p := pfx.getId
  let mut items : Array (String × Json) := #[]
  for (n, ci) in env.constants.toList do
    if p.isPrefixOf n && !n.isInternalDetail then
      match ci with
      | .thmInfo _ =>
        let ax ← collectAxioms n
        items := items.push (n.toString, Json.arr (ax.map (fun a => Json.str a.toString)))
      | _ => pure ()
  logInfo m!"AUDIT_JSON {(Json.mkObj items.toList).compress}"
