/-! L3: model of `SuitComponentVersion.from_obj` on strings (`suit/manifest.py`) and of the default
version / sequence number derivation in `ncs/build.py` (`append_default_version_values`).
Strings are `List Char`; the model's domain is ASCII text. -/
namespace SuitVerif.Version

/-! ### Python string primitives on ASCII -/

/-- `s.split(sep)` for a one-character separator -/
def splitOn (sep : Char) : List Char → List (List Char)
  | [] => [[]]
  | c :: rest =>
    if c = sep then [] :: splitOn sep rest
    else match splitOn sep rest with
      | [] => [[c]]          -- unreachable: `splitOn` never returns []
      | p :: ps => (c :: p) :: ps

/-- `s.replace(a, b)` for single characters -/
def replaceChar (a b : Char) (s : List Char) : List Char := s.map (fun c => if c = a then b else c)

def isDigit (c : Char) : Bool := '0' ≤ c && c ≤ '9'

/-- `str.isnumeric()` on ASCII: non-empty, digits only -/
def isNumeric (s : List Char) : Bool := !s.isEmpty && s.all isDigit

/-- `int(s)` for a string of ASCII digits -/
def digitsToNat (s : List Char) : Nat := s.foldl (fun acc c => acc * 10 + (c.toNat - 48)) 0

inductive Label where | alpha | beta | rc
  deriving Repr, DecidableEq

def Label.code : Label → Int | .alpha => -3 | .beta => -2 | .rc => -1
def Label.text : Label → List Char | .alpha => "alpha".toList | .beta => "beta".toList | .rc => "rc".toList
def Label.rank : Label → Nat | .alpha => 0 | .beta => 1 | .rc => 2

def labelOf (s : List Char) : Option Label :=
  if s = "alpha".toList then some .alpha else if s = "beta".toList then some .beta
  else if s = "rc".toList then some .rc else none

/-- `_convert_version_part` on a string part: `none` = ValueError -/
def convertPart (p : List Char) : Option Int :=
  if isNumeric p then some (digitsToNat p : Int)
  else (labelOf p).map Label.code

def allSome {α} : List (Option α) → Option (List α)
  | [] => some []
  | none :: _ => none
  | some x :: rest => (allSome rest).map (x :: ·)

/-- `SuitComponentVersion.from_obj(str).to_obj()`: the integer list, or `none` for ValueError -/
def parseVersion (s : List Char) : Option (List Int) :=
  allSome ((splitOn '.' (replaceChar '-' '.' s)).map convertPart)

/-! ### the supported grammar N(.N)*[-(alpha|beta|rc)[.N]] and its reference semantics -/

structure Ver where
  nums : List Nat                       -- at least one in the grammar
  pre : Option (Label × Option Nat)
  deriving Repr, DecidableEq

/-- the integer list the draft assigns to a version -/
def conv (v : Ver) : List Int :=
  v.nums.map (fun (n : Nat) => (n : Int)) ++
    (match v.pre with
     | none => []
     | some (l, none) => [l.code]
     | some (l, some n) => [l.code, (n : Int)])

/-- `[] < ys` under zero padding -/
def zerosLt : List Int → Bool
  | [] => false
  | y :: ys => if 0 < y then true else if y < 0 then false else zerosLt ys

/-- `xs < []` under zero padding -/
def ltZeros : List Int → Bool
  | [] => false
  | x :: xs => if x < 0 then true else if 0 < x then false else ltZeros xs

/-- zero-padded element-wise "less than" on integer lists -/
def listLt : List Int → List Int → Bool
  | [], ys => zerosLt ys
  | x :: xs, [] => ltZeros (x :: xs)
  | x :: xs, y :: ys => if x < y then true else if y < x then false else listLt xs ys

def allZero : List Nat → Bool
  | [] => true
  | x :: xs => x == 0 && allZero xs

def anyPos : List Nat → Bool
  | [] => false
  | x :: xs => if 0 < x then true else anyPos xs

/-- numeric fields, zero-padded, lexicographic -/
def numsLt : List Nat → List Nat → Bool
  | [], ys => anyPos ys
  | _ :: _, [] => false
  | x :: xs, y :: ys => if x < y then true else if y < x then false else numsLt xs ys

def numsEq : List Nat → List Nat → Bool
  | [], ys => allZero ys
  | x :: xs, [] => allZero (x :: xs)
  | x :: xs, y :: ys => x == y && numsEq xs ys

/-- pre-release precedence (semver.org rule 11): a release is greater than any pre-release;
alpha < beta < rc; a label alone is smaller than the label with a number; numbers numerically -/
def preLt : Option (Label × Option Nat) → Option (Label × Option Nat) → Bool
  | none, _ => false
  | some _, none => true
  | some (l1, n1), some (l2, n2) =>
    l1.rank < l2.rank || (l1 == l2 &&
      (match n1, n2 with
       | none, some _ => true
       | some a, some b => a < b
       | _, _ => false))

def semverLt (a b : Ver) : Bool :=
  numsLt a.nums b.nums || (numsEq a.nums b.nums && preLt a.pre b.pre)

/-! ### `ncs/build.py`: default sequence number and default version string -/

def seqNum (major minor patch tweak : Nat) : Nat := major * 2 ^ 24 + minor * 2 ^ 16 + patch * 2 ^ 8 + tweak

/-- `re.match(r"^(alpha|beta|rc)[\.]{0,1}([0-9]+){0,1}$", extra)`: the two groups, or `none` -/
def matchExtra (e : List Char) : Option (Label × Option (List Char)) :=
  let try1 (l : Label) : Option (Label × Option (List Char)) :=
    if l.text.isPrefixOf e then
      let r := e.drop l.text.length
      let r := match r with | '.' :: r' => r' | r => r
      if r.isEmpty then some (l, none)
      else if r.all isDigit then some (l, some r) else none
    else none
  (try1 .alpha).orElse (fun _ => (try1 .beta).orElse (fun _ => try1 .rc))

/-- `default_version` when VERSION_MAJOR/MINOR/PATCHLEVEL are present (`extra = none`: no EXTRAVERSION key) -/
def defaultVersion (major minor patch : List Char) (extra : Option (List Char)) : List Char :=
  let base := major ++ ['.'] ++ minor ++ ['.'] ++ patch
  match extra with
  | none => base
  | some e =>
    match matchExtra e with
    | some (l, none) => base ++ ['-'] ++ l.text
    | some (l, some n) => base ++ ['-'] ++ l.text ++ ['.'] ++ n
    | none => if e.isEmpty then base else base ++ "-alpha".toList

end SuitVerif.Version
