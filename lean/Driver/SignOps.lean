import Driver.Util
import SuitVerif.Sign
import SuitVerif.Spec
open Lean SuitVerif SuitVerif.Sign
namespace Driver.SignOps

def algOf (s : String) : M Alg :=
  match s with
  | "es-256" => pure .es256 | "es-384" => pure .es384 | "es-521" => pure .es521
  | "eddsa" => pure .eddsa | "hash-eddsa" => pure .hashEddsa
  | _ => .error s!"alg {s}"

def actionOf (s : String) : M Action :=
  match s with
  | "error" => pure .error | "remove-old" => pure .removeOld | "skip" => pure .skip | "append" => pure .append
  | _ => .error s!"action {s}"

def errName : Sign.Err → String
  | .signerError => "SignerError" | .notImplemented => "NotImplementedError" | .valueError => "ValueError"
  | .internal k => "internal:" ++ k

/-- table of recorded KMS calls: [key name, algorithm, message hex, signature hex] -/
def tableOf (j : Json) : M (List (String × String × Bytes × Bytes)) := do
  match fieldOpt j "table" with
  | none => pure []
  | some t => (← asArr t).mapM (fun e => do
      match ← asArr e with
      | [k, a, m, s] => pure (← asStr k, ← asStr a, ← asHex m, ← asHex s)
      | _ => .error "table entry")

def lookupSig (tbl : List (String × String × Bytes × Bytes)) (key : String) (alg : Alg) (msg : Bytes) : Option Bytes :=
  (tbl.find? (fun e => e.1 == key && e.2.1 == alg.kmsName && e.2.2.1 == msg)).map (·.2.2.2)

partial def cfgOf (j : Json) : M Cfg := do
  let omitSig ← match fieldOpt j "omit" with | some b => asBool b | none => pure false
  let keyName ← match fieldOpt j "key_name" with | some k => do pure (some (← asStr k)) | none => pure none
  let keyId ← match fieldOpt j "key_id" with | some k => do pure (some (← asInt k)) | none => pure none
  let alg ← match fieldOpt j "alg" with | some a => do pure (some (← algOf (← asStr a))) | none => pure none
  let action ← match fieldOpt j "action" with | some a => do pure (some (← actionOf (← asStr a))) | none => pure none
  let deps ← match fieldOpt j "deps" with
    | some d => (← asArr d).mapM (fun e => do
        match ← asArr e with
        | [n, c] => pure (← asStr n, ← cfgOf c)
        | _ => .error "dep")
    | none => pure []
  pure (.mk omitSig keyName keyId alg action deps)

def handle (op : String) (j : Json) : Option (M Json) :=
  match op with
  | "sign.single" => some do
      let tbl ← tableOf j
      let alg ← algOf (← strField j "alg")
      let key ← strField j "key_name"
      let r := signFile (lookupSig tbl key alg) (← hexField j "file") alg (← intField j "key_id") (← actionOf (← strField j "action"))
      pure (match r with | .ok b => okHex b | .error e => errJ (errName e))
  | "sign.message" => some do
      -- the Sig_structure the model asks the KMS to sign (recorded through a signFn that refuses)
      let alg ← algOf (← strField j "alg")
      let file ← hexField j "file"
      let keyId ← intField j "key_id"
      match loads file with
      | some (.tag _ (.map m)) =>
        match wrapperList m with
        | .ok (.bstr d :: _) => (match loads d with
            | some dg => pure (okHex (sigStructure (enc (protectedMap alg keyId)) dg))
            | none => pure (errJ "digest"))
        | _ => pure (errJ "wrapper")
      | _ => pure (errJ "envelope")
  | "sign.recursive" => some do
      let tbl ← tableOf j
      let cfg ← cfgOf (← field j "cfg")
      let r := recursiveSignFile (lookupSig tbl) (← hexField j "file") cfg
      pure (match r with | .ok b => okHex b | .error e => errJ (errName e))
  | "sign.rs" => some do
      match rsEncode (← natField j "w") (← natField j "r") (← natField j "s") with
      | some b => pure (okHex b)
      | none => pure (errJ "OverflowError")
  | "sign.keymatch" => some do
      let kt ← match ← strField j "key" with
        | "p256" => pure KeyType.p256 | "p384" => pure .p384 | "p521" => pure .p521
        | "ed25519" => pure .ed25519 | "ed448" => pure .ed448 | k => .error s!"key {k}"
      pure (okJ (.bool (keyMatches kt (← algOf (← strField j "alg")))))
  | "spec.C04" => some do
      match Spec.checkSigned (← hexField j "input") (← hexField j "output") (← intField j "cose_alg") (← intField j "key_id") with
      | some v => pure (okJ (Json.mkObj [("protected", hexJ v.protectedBytes), ("signature", hexJ v.signature), ("message", hexJ v.message)]))
      | none => pure (errJ "not-input-plus-one-block")
  | _ => none

end Driver.SignOps
