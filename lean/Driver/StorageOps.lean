import Driver.Util
import Driver.SuitOps
import Driver.IHexOps
import SuitVerif.Storage
import SuitVerif.Generated.Layout
open Lean SuitVerif SuitVerif.Storage
namespace Driver.StorageOps

def errName : Storage.Err → String
  | .generatorError w => "GeneratorError:" ++ w
  | .suit e => "suit:" ++ SuitOps.errName e
  | .keyError => "KeyError"
  | .internal k => "internal:" ++ k

def layoutOf (soc : String) : M (List Slot × List (String × String × String)) :=
  match soc with
  | "nrf54h20" => pure (Generated.layout_nrf54h20, Generated.assignments_nrf54h20)
  | "nrf9280" => pure (Generated.layout_nrf9280, Generated.assignments_nrf9280)
  | s => .error s!"soc {s}"

def handle (op : String) (j : Json) : Option (M Json) :=
  match op with
  | "storage.layout" => some do
      let (layout, as) ← layoutOf (← strField j "soc")
      pure (okJ (Json.mkObj [
        ("slots", .arr (layout.map (fun s => Json.mkObj [("role", .str s.role), ("offset", natJ s.offset), ("size", natJ s.size), ("domain", .str s.domain)])).toArray),
        ("assignments", .arr (as.map (fun a => Json.arr #[.str a.1, .str a.2.1, .str a.2.2])).toArray),
        ("domains", .arr (Generated.domains.map Json.str).toArray)]))
  | "storage.kconfig" => some do
      match kconfigAssignments (Generated.roles.map (·.1)) (parseConfig (← strField j "text")) with
      | .ok as => pure (okJ (.arr (as.map (fun a => Json.arr #[.str a.1, .str a.2.1, .str a.2.2])).toArray))
      | .error e => pure (errJ (errName e))
  | "storage.boot" => some do
      let cx ← SuitOps.ctxOf j
      let (layout, defaults) ← layoutOf (← strField j "soc")
      let files ← (← arrField j "files").mapM asHex
      let base ← natField j "base"
      let tbl0 := assignAll Hash.sha1 [] defaults
      let tblR : Storage.R (List (Bytes × String)) := match fieldOpt j "kconfig" with
        | some (.str text) => (kconfigAssignments (Generated.roles.map (·.1)) (parseConfig text)).map (assignAll Hash.sha1 tbl0)
        | _ => .ok tbl0
      match tblR with
      | .error e => pure (errJ (errName e))
      | .ok tbl =>
        match boot cx layout Generated.domains tbl base files with
        | .error e => pure (errJ (errName e))
        | .ok imgs =>
          let items ← imgs.mapM (fun (d, img) => do
            match IHex.canon img with
            | some c => pure (d, IHexOps.imageJ c)
            | none => .error "overlap in model image")
          pure (okJ (Json.mkObj items))
  | _ => none

end Driver.StorageOps
