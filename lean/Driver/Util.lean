import Lean.Data.Json
import SuitVerif.Bytes
/-! JSON helpers for the line-protocol driver. -/
open Lean SuitVerif
namespace Driver

abbrev M := Except String

def field (j : Json) (k : String) : M Json :=
  match j.getObjVal? k with
  | .ok v => .ok v
  | .error _ => .error s!"missing field {k}"

def fieldOpt (j : Json) (k : String) : Option Json :=
  match j.getObjVal? k with
  | .ok .null => none
  | .ok v => some v
  | .error _ => none

def asStr : Json → M String
  | .str s => .ok s
  | j => .error s!"expected string, got {j.compress}"

def asNat (j : Json) : M Nat :=
  match j.getNat? with
  | .ok n => .ok n
  | .error _ => .error s!"expected natural number, got {j.compress}"

def asInt (j : Json) : M Int :=
  match j.getInt? with
  | .ok n => .ok n
  | .error _ => .error s!"expected integer, got {j.compress}"

def asBool : Json → M Bool
  | .bool b => .ok b
  | j => .error s!"expected bool, got {j.compress}"

def asArr : Json → M (List Json)
  | .arr a => .ok a.toList
  | j => .error s!"expected array, got {j.compress}"

def asHex (j : Json) : M Bytes := do
  let s ← asStr j
  match ofHex s with
  | some b => .ok b
  | none => .error s!"bad hex {s}"

def strField (j : Json) (k : String) : M String := do asStr (← field j k)
def natField (j : Json) (k : String) : M Nat := do asNat (← field j k)
def intField (j : Json) (k : String) : M Int := do asInt (← field j k)
def boolField (j : Json) (k : String) : M Bool := do asBool (← field j k)
def hexField (j : Json) (k : String) : M Bytes := do asHex (← field j k)
def arrField (j : Json) (k : String) : M (List Json) := do asArr (← field j k)

def hexJ (b : Bytes) : Json := .str (toHex b)
def okHex (b : Bytes) : Json := Json.mkObj [("ok", hexJ b)]
def okJ (j : Json) : Json := Json.mkObj [("ok", j)]
def errJ (e : String) : Json := Json.mkObj [("err", .str e)]
def natJ (n : Nat) : Json := .num (JsonNumber.fromNat n)
def intJ (n : Int) : Json := .num (JsonNumber.fromInt n)

end Driver
