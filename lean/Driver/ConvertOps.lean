import Driver.Util
import SuitVerif.Convert
open Lean SuitVerif SuitVerif.Convert
namespace Driver.ConvertOps

def handle (op : String) (j : Json) : Option (M Json) :=
  match op with
  | "convert.pub" => some do
      match pubXY (← natField j "w") (← natField j "x") (← natField j "y") with
      | some b => pure (okHex b)
      | none => pure (errJ "OverflowError")
  | "convert.file" => some do
      let o : Convert.Options := {
        arrayType := ← strField j "array_type", arrayName := ← strField j "array_name",
        lengthType := ← strField j "length_type", lengthName := ← strField j "length_name",
        cols := ← natField j "cols", indentCount := ← natField j "indent", indentTab := ← boolField j "tab",
        noLength := ← boolField j "no_length", noConst := ← boolField j "no_const",
        header := ← strField j "header", footer := ← strField j "footer" }
      pure (okJ (.str (fileText o (← hexField j "data"))))
  | "convert.tokens" => some do
      pure (okHex (tokens (← strField j "text").toList))
  | _ => none

end Driver.ConvertOps
