import Driver.Util
import SuitVerif.Encode
import SuitVerif.Generated.Schema
import SuitVerif.Generated.Guards
import SuitVerif.Registry
import SuitVerif.Spec
import SuitVerif.Hash.Sha2
import SuitVerif.Hash.Keccak
open Lean SuitVerif SuitVerif.Py
namespace Driver.SuitOps

/-- order-preserving JSON encoding of `Obj`:
{"n":0} null, {"b":bool}, {"i":int}, {"s":str}, {"l":[…]}, {"d":[[key, value], …]}, {"o":0} other -/
partial def objOfJ (j : Json) : M Obj := do
  if let some _ := fieldOpt j "b" then return .bool (← boolField j "b")
  if let some _ := fieldOpt j "i" then return .int (← intField j "i")
  if let some _ := fieldOpt j "s" then return .str (← strField j "s")
  if let some _ := fieldOpt j "l" then
    return .list (← (← arrField j "l").mapM objOfJ)
  if let some _ := fieldOpt j "d" then
    let kvs ← (← arrField j "d").mapM (fun e => do
      match ← asArr e with
      | [k, v] => pure (← asStr k, ← objOfJ v)
      | _ => .error "dict entry")
    return .dict kvs
  if let some _ := fieldOpt j "o" then return .other
  match j.getObjVal? "n" with
  | .ok _ => return .null
  | .error _ => .error s!"objOfJ: {j.compress}"

partial def jOfObj : Obj → Json
  | .null => Json.mkObj [("n", natJ 0)]
  | .bool b => Json.mkObj [("b", .bool b)]
  | .int n => Json.mkObj [("i", intJ n)]
  | .str s => Json.mkObj [("s", .str s)]
  | .list xs => Json.mkObj [("l", .arr (xs.map jOfObj).toArray)]
  | .dict kvs => Json.mkObj [("d", .arr (kvs.map (fun e => Json.arr #[.str e.1, jOfObj e.2])).toArray)]
  | .other => Json.mkObj [("o", natJ 0)]

/-- plain JSON (as `json.loads` sees a dictionary key) to `Obj` -/
partial def objOfPlain : Json → Obj
  | .null => .null
  | .bool b => .bool b
  | .num n => if n.exponent = 0 then .int n.mantissa else .other
  | .str s => .str s
  | .arr a => .list (a.toList.map objOfPlain)
  | .obj o => .dict (o.toList.map (fun (k, v) => (k, objOfPlain v)))

def jsonLoads (s : String) : Option Obj :=
  match Json.parse s with
  | .ok j => some (objOfPlain j)
  | .error _ => none

def hashFn (alg : String) (b : Bytes) : Bytes :=
  let len := ((Generated.schema.hashes.find? (fun e => e.1 == alg)).map (·.2)).getD 0
  match alg with
  | "cose-alg-sha-256" => Hash.sha256 b
  | "cose-alg-sha-384" => Hash.sha384 b
  | "cose-alg-sha-512" => Hash.sha512 b
  | "cose-alg-shake128" => Hash.shake128 len b
  | "cose-alg-shake256" => Hash.shake256 len b
  | _ => []

/-- the verifier's digest table, by COSE algorithm identifier, with the registry's output lengths -/
def hashById : Spec.HashById := fun i =>
  if i == -16 then some Hash.sha256 else if i == -43 then some Hash.sha384 else if i == -44 then some Hash.sha512
  else if i == -18 then some (Hash.shake128 16) else if i == -45 then some (Hash.shake256 32) else none

def errName : Err → String
  | .valueError => "ValueError" | .suitError => "SUITError" | .osError => "OSError"
  | .internal k => "internal:" ++ k | .fuel => "model-fuel" | .model w => "model-" ++ w

def ctxOf (j : Json) : M Encode.Ctx := do
  let files ← match fieldOpt j "fs" with
    | some (.obj o) => o.toList.mapM (fun (k, v) => do pure (k, ← asHex v))
    | _ => pure []
  pure { schema := Generated.schema, guards := Generated.guards,
         fs := fun p => (files.find? (fun e => e.1 == p)).map (·.2),
         hashFn := hashFn, sha1 := Hash.sha1, jsonLoads := jsonLoads }

def handle (op : String) (j : Json) : Option (M Json) :=
  match op with
  | "suit.create" => some do
      let cx ← ctxOf j
      let o ← objOfJ (← field j "desc")
      pure (match Encode.createTop cx o with | .ok b => okHex b | .error e => errJ (errName e))
  | "suit.parse" => some do
      let b ← hexField j "bytes"
      pure (match Decode.parse Generated.guards Generated.schema b with
        | .ok o => okJ (jOfObj o) | .error e => errJ (errName e))
  | "suit.roundtrip" => some do
      -- parse then create (no files): the re-created envelope
      let cx ← ctxOf j
      let b ← hexField j "bytes"
      pure (match Decode.parse Generated.guards Generated.schema b with
        | .error e => errJ ("parse:" ++ errName e)
        | .ok o => match Encode.createTop cx o with
          | .ok b' => okHex b' | .error e => errJ ("create:" ++ errName e))
  | "suit.encode" => some do
      -- from_obj(desc).to_cbor() for an arbitrary class of the schema
      let cx ← ctxOf j
      let o ← objOfJ (← field j "desc")
      let c ← natField j "cls"
      pure (match Encode.fromObj cx (Encode.objBudget cx.schema o) c o with
        | .ok n => okHex n.toBytes | .error e => errJ (errName e))
  | "suit.decode" => some do
      -- from_cbor(bytes).to_obj() for an arbitrary class of the schema
      let b ← hexField j "bytes"
      let c ← natField j "cls"
      pure (match Decode.fromBytes Generated.guards Generated.schema (Decode.budget Generated.schema b) c b with
        | .ok n => okJ (jOfObj (Decode.toObj n)) | .error e => errJ (errName e))
  | "registry" => some do
      pure (okJ (Json.mkObj [
        ("spaces", .arr (Registry.spaces.map (fun sp => Json.arr #[.str sp.1,
            .arr (sp.2.map (fun e => Json.arr #[.str e.1, intJ e.2])).toArray])).toArray),
        ("tags", .arr (Registry.tags.map (fun t => Json.arr #[.str t.1, natJ t.2])).toArray),
        ("hash_lengths", .arr (Registry.hashLengths.map (fun t => Json.arr #[.str t.1, natJ t.2])).toArray)]))
  | "spec.C01" => some do
      let b ← hexField j "bytes"
      pure (okJ (Json.mkObj [("root_and_severed", .bool (Spec.check1 hashById b)), ("recursive", .bool (Spec.checkRec hashById 8 b))]))
  | "cbor.strict" => some do
      -- is the input one definite-length shortest-form item (recursively into nothing: the item itself)?
      pure (okJ (.bool (decodeStrict (← hexField j "bytes")).isSome))
  | "suit.hash" => some do
      pure (okHex (hashFn (← strField j "alg") (← hexField j "data")))
  | _ => none

end Driver.SuitOps
