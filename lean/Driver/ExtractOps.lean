import Driver.Util
import SuitVerif.Extract
open Lean SuitVerif SuitVerif.Extract
namespace Driver.ExtractOps

def errName : Extract.Err → String
  | .generatorError => "GeneratorError"
  | .cache .valueError => "ValueError" | .cache .overflow => "OverflowError" | .cache .zeroDiv => "ZeroDivisionError" | .cache .decode => "DecodeError"
  | .internal k => "internal:" ++ k

def namesOf (j : Json) (k : String) : M (Bytes → Bool) := do
  match fieldOpt j k with
  | none => pure (fun _ => false)
  | some a => do
    let ns ← (← asArr a).mapM (fun x => do pure (utf8 (← asStr x)))
    pure (fun b => ns.contains b)

def handle (op : String) (j : Json) : Option (M Json) :=
  match op with
  | "extract.cache" => some do
      let isDep ← namesOf j "deps"
      let isOmitted ← namesOf j "omit"
      match fromEnvelope (← natField j "eb") isDep isOmitted (← hexField j "envelope") with
      | .ok (cache, out) => pure (okJ (Json.mkObj [("cache", hexJ cache), ("envelope", hexJ out)]))
      | .error e => pure (errJ (errName e))
  | "extract.payload" => some do
      let repl ← match fieldOpt j "replace" with | some r => do pure (some (← asHex r)) | none => pure none
      match payloadExtract (← hexField j "envelope") (utf8 (← strField j "name")) repl with
      | .ok (out, ex) =>
        let p : Json := match ex with
          | some (.bstr b) => hexJ b
          | some _ => .str "non-bytes"
          | none => .null
        pure (okJ (Json.mkObj [("envelope", hexJ out), ("payload", p)]))
      | .error e => pure (errJ (errName e))
  | _ => none

end Driver.ExtractOps
