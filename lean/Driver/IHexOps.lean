import Driver.Util
import SuitVerif.IHexWrite
import SuitVerif.IHexImage
open Lean SuitVerif SuitVerif.IHex
namespace Driver.IHexOps

def imageJ (img : Image) : Json :=
  .arr (img.map (fun (s : Nat × Bytes) => Json.arr #[natJ s.1, hexJ s.2])).toArray

def handle (op : String) (j : Json) : Option (M Json) :=
  match op with
  | "ihex.read" => some do
      match read (← strField j "text") with
      | some img => pure (okJ (imageJ img))
      | none => pure (errJ "malformed")
  | "ihex.write" => some do
      -- the writer model (one block of data): the text `intelhex` is expected to write for it
      pure (okJ (Json.str (writeText (← natField j "address") (← hexField j "data"))))
  | "ihex.write_image" => some do
      -- the writer model for a whole image given as [[address, hex] ...] (canonical: as `ihex.read` returns it)
      let segs ← (← arrField j "image").mapM (fun (e : Json) => do
        match e with
        | .arr #[a, b] => pure ((← asNat a), (← asHex b))
        | _ => throw "image: [address, hex] expected")
      pure (okJ (Json.str (writeImageText segs)))
  | _ => none

end Driver.IHexOps
