import Driver.Util
import SuitVerif.IHexWrite
open Lean SuitVerif SuitVerif.IHex
namespace Driver.IHexOps

def imageJ (img : Image) : Json :=
  .arr (img.map (fun (s : Nat × Bytes) => Json.arr #[natJ s.1, hexJ s.2])).toArray

def handle (op : String) (j : Json) : Option (M Json) :=
  match op with
  | "ihex.read" => some do
      match read (← strField j "text") with
      | some img => pure (okJ (imageJ img))
      | none => pure (errJ "malformed")
  | "ihex.write" => some do
      -- the writer model (one block of data): the text `intelhex` is expected to write for it
      pure (okJ (Json.str (writeText (← natField j "address") (← hexField j "data"))))
  | _ => none

end Driver.IHexOps
