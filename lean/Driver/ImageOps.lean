import Driver.Util
import Driver.IHexOps
import SuitVerif.Mpi
import SuitVerif.Update
import SuitVerif.Hash.Sha2
open Lean SuitVerif SuitVerif.IHex
namespace Driver.ImageOps

def imageOf (j : Json) : M Image := do
  (← asArr j).mapM (fun s => do
    match ← asArr s with
    | [a, b] => pure (← asNat a, ← asHex b)
    | _ => .error "segment: expected [addr, hex]")

def canonJ (img : Image) : Json :=
  match canon img with
  | some c => okJ (IHexOps.imageJ c)
  | none => errJ "overlap-in-model-image"

def mpiErr : Mpi.Err → String
  | .generatorError => "GeneratorError" | .overlap => "AddressOverlapError" | .emptyInput => "TypeError"

def updErr : Update.Err → String
  | .structError => "error" | .overflow => "OverflowError"

def sigPolicy (j : Json) : Mpi.SigPolicy :=
  match fieldOpt j "sv" with
  | none => .none
  | some (.str "update") => .update
  | some (.str "update-and-boot") => .updateAndBoot
  | some _ => .other

def handle (op : String) (j : Json) : Option (M Json) :=
  match op with
  | "uuid5" => some do
      pure (okHex (Uuid.uuid5 Hash.sha1 (← hexField j "ns") (utf8 (← strField j "name"))))
  | "mpi.generate" => some do
      let r := Mpi.generate Hash.sha1 (utf8 (← strField j "vendor")) (utf8 (← strField j "cls"))
        (← natField j "address") (← natField j "size") (← boolField j "dp") (← boolField j "iu") (sigPolicy j)
      pure (match r with | .ok img => canonJ img | .error e => errJ (mpiErr e))
  | "mpi.merge" => some do
      let inputs ← (← arrField j "inputs").mapM imageOf
      let r := Mpi.merge Hash.sha256 (← natField j "address") (← natField j "size") inputs
      pure (match r with | .ok img => canonJ img | .error e => errJ (mpiErr e))
  | "update.storage" => some do
      let r := Update.storageImage (← natField j "uci") (← natField j "dfu") (← natField j "size") (← natField j "caches")
      pure (match r with | .ok img => canonJ img | .error e => errJ (updErr e))
  | "update.dfu" => some do
      let r := Update.dfuImage (← natField j "dfu") (← hexField j "envelope")
      pure (match r with | .ok img => canonJ img | .error e => errJ (updErr e))
  | "update.check" => some do
      let st := Update.checkStorage (← imageOf (← field j "storage")) (← natField j "uci") (← natField j "dfu")
        (← natField j "size") (← natField j "caches")
      let df := Update.checkDfu (← imageOf (← field j "dfuimg")) (← natField j "dfu") (← hexField j "envelope")
      pure (okJ (.bool (st && df)))
  | "mpi.check_record" => some do
      let vendor := utf8 (← strField j "vendor")
      let cls := utf8 (← strField j "cls")
      match Mpi.sigByte (sigPolicy j) with
      | .error _ => pure (okJ (.bool false))
      | .ok svb =>
        pure (okJ (.bool (Mpi.checkRecord (← imageOf (← field j "img")) (Uuid.vid Hash.sha1 vendor) (Uuid.cid Hash.sha1 vendor cls)
          (← natField j "address") (← natField j "size") (← boolField j "dp") (← boolField j "iu") svb)))
  | "mpi.check_merge" => some do
      let inputs ← (← arrField j "inputs").mapM imageOf
      pure (okJ (.bool (Mpi.checkMerge Hash.sha256 (← imageOf (← field j "img")) (← natField j "address") (← natField j "size") inputs)))
  | _ => none

end Driver.ImageOps
