import Driver.Util
import SuitVerif.Encrypt
open Lean SuitVerif SuitVerif.Encrypt
namespace Driver.EncryptOps

def artJ (a : Artifacts) : Json := Json.mkObj [("content", hexJ a.encryptedContent), ("info", hexJ a.encryptionInfo)]

def handle (op : String) (j : Json) : Option (M Json) :=
  match op with
  | "enc.generate" => some do
      let cek ← match fieldOpt j "cek" with | some c => do pure (some (← asHex c)) | none => pure none
      pure (okJ (artJ (generate (← hexField j "asset") cek (← intField j "key_id") (← intField j "kw"))))
  | "enc.encrypt" => some do
      -- the model given what AES-GCM returned for the nonce the KMS drew
      let asset := (← hexField j "nonce") ++ (← hexField j "tag") ++ (← hexField j "ct")
      pure (okJ (artJ (generate asset none (← intField j "key_id") (-6))))
  | "spec.C06" => some do
      match readInfo (← hexField j "info") with
      | some v => pure (okJ (Json.mkObj [("protected", hexJ v.protectedBytes), ("iv", hexJ v.iv), ("key_id", intJ v.keyId),
          ("kw", intJ v.kwAlg), ("cek", match v.cek with | some c => hexJ c | none => .null),
          ("aad", hexJ (encStructure v.protectedBytes))]))
      | none => pure (errJ "not-a-bstr-wrapped-COSE_Encrypt-of-the-expected-shape")
  | _ => none

end Driver.EncryptOps
