import Driver.Util
import SuitVerif.Cache
open Lean SuitVerif SuitVerif.Cache
namespace Driver.CacheOps

def errName : Cache.Err → String
  | .valueError => "ValueError" | .overflow => "OverflowError" | .zeroDiv => "ZeroDivisionError" | .decode => "DecodeError"

def slotsOf (j : Json) : M (List (Bytes × Bytes)) := do
  let xs ← asArr j
  xs.mapM (fun x => do
    match ← asArr x with
    | [u, p] => pure (utf8 (← asStr u), ← asHex p)
    | _ => .error "slot: expected [uri, hex]")

def res (r : Except Cache.Err Bytes) : Json :=
  match r with | .ok b => okHex b | .error e => errJ (errName e)

def handle (op : String) (j : Json) : Option (M Json) :=
  match op with
  | "cache.from_payloads" => some do
      pure (res (fromPayloads (← natField j "eb") (← slotsOf (← field j "slots"))))
  | "cache.merge" => some do
      let files ← (← arrField j "files").mapM asHex
      pure (res (merge (← natField j "eb") files))
  | "cache.check" => some do
      pure (okJ (.bool (check (← natField j "eb") (← slotsOf (← field j "slots")) (← hexField j "out"))))
  | "cache.read" => some do
      match readCache (← hexField j "out") with
      | none => pure (errJ "unreadable")
      | some items => pure (okJ (.arr (items.map (fun it => Json.mkObj [("offset", natJ it.offset),
          ("key", hexJ it.key), ("fixed4", .bool it.fixed4), ("value", hexJ it.value)])).toArray))
  | _ => none

end Driver.CacheOps
