import Driver.Util
import Driver.SuitOps
import SuitVerif.Template
open Lean SuitVerif SuitVerif.Template
namespace Driver.TemplateOps

def optStr (j : Json) (k : String) : M (Option String) :=
  match fieldOpt j k with | some v => do pure (some (← asStr v)) | none => pure none

def optObj (j : Json) (k : String) : M (Option Obj) :=
  match fieldOpt j k with | some v => do pure (some (← SuitOps.objOfJ v)) | none => pure none

def handle (op : String) (j : Json) : Option (M Json) :=
  match op with
  | "template.root" => some do
      let radio ← optStr j "radio"
      let application ← optStr j "application"
      let topI ← optStr j "top"
      let seq ← SuitOps.objOfJ (← field j "seq")
      let version ← optObj j "version"
      let c : RootCfg := {
        radio := radio, application := application, top := topI,
        rootVendor := (← strField j "root_vendor"), rootClass := (← strField j "root_class"),
        appVendor := (← strField j "app_vendor"), appClass := (← strField j "app_class"),
        radVendor := (← strField j "rad_vendor"), radClass := (← strField j "rad_class"),
        seqNum := seq, version := version, artifacts := (← strField j "artifacts") }
      pure (okJ (SuitOps.jOfObj (root c)))
  | "template.top" => some do
      let seq ← SuitOps.objOfJ (← field j "seq")
      let version ← optObj j "version"
      let secdom ← strField j "secdom"
      let sysctrl ← strField j "sysctrl"
      let artifacts ← strField j "artifacts"
      let c : TopCfg := ⟨secdom, sysctrl, seq, version, artifacts⟩
      pure (okJ (SuitOps.jOfObj (top c)))
  | _ => none

end Driver.TemplateOps
