import Driver.Util
import SuitVerif.Version
open Lean SuitVerif SuitVerif.Version
namespace Driver.VersionOps

instance : Inhabited Ver := ⟨⟨[], none⟩⟩

def labelOfJ (j : Json) : M (Option Label) :=
  match j with
  | .null => pure none
  | .str "alpha" => pure (some .alpha) | .str "beta" => pure (some .beta) | .str "rc" => pure (some .rc)
  | _ => .error "label"

def verOf (j : Json) : M (Ver × List Int) := do
  let nums ← (← arrField j "nums").mapM asNat
  let l ← labelOfJ ((fieldOpt j "label").getD .null)
  let n ← match fieldOpt j "n" with | none => pure none | some x => do pure (some (← asNat x))
  let lst ← (← arrField j "list").mapM asInt
  pure ({ nums := nums, pre := l.map (fun l => (l, n)) }, lst)

def explicitZero : Option (Label × Option Nat) → Bool
  | some (_, some 0) => true
  | _ => false

def lexLtB (a b : Nat × Nat × Nat × Nat) : Bool :=
  a.1 < b.1 || (a.1 == b.1 && (a.2.1 < b.2.1 || (a.2.1 == b.2.1 && (a.2.2.1 < b.2.2.1 || (a.2.2.1 == b.2.2.1 && a.2.2.2 < b.2.2.2)))))

def handle (op : String) (j : Json) : Option (M Json) :=
  match op with
  | "version.parse" => some do
      match parseVersion (← strField j "s").toList with
      | some l => pure (okJ (.arr (l.map intJ).toArray))
      | none => pure (errJ "ValueError")
  | "version.conv" => some do
      let (v, _) ← verOf j
      pure (okJ (.arr ((conv v).map intJ).toArray))
  | "version.pairs" => some do
      let items ← (← arrField j "items").mapM verOf
      let arr := items.toArray
      let mut outside : Array Json := #[]
      let mut mixed := 0
      let mut zeroC := 0
      let mut firstMixed : Json := .null
      let mut firstZero : Json := .null
      let mut pairs := 0
      let mut strictLt := 0
      for i in [0:arr.size] do
        for k in [0:arr.size] do
          let (a, la) := arr[i]!
          let (b, lb) := arr[k]!
          pairs := pairs + 1
          let ref := semverLt a b
          if ref then strictLt := strictLt + 1
          if ref != listLt la lb then
            if a.nums.length != b.nums.length then
              mixed := mixed + 1
              if firstMixed == Json.null then firstMixed := Json.arr #[natJ i, natJ k]
            else if explicitZero a.pre || explicitZero b.pre then
              zeroC := zeroC + 1
              if firstZero == Json.null then firstZero := Json.arr #[natJ i, natJ k]
            else if outside.size < 20 then outside := outside.push (Json.arr #[natJ i, natJ k])
      pure (okJ (Json.mkObj [("pairs", natJ pairs), ("semver_lt_true", natJ strictLt), ("fail_outside", .arr outside),
        ("fail_mixed", natJ mixed), ("fail_zero", natJ zeroC), ("first_mixed", firstMixed), ("first_zero", firstZero)]))
  | "version.default" => some do
      let major := (← strField j "major").toList
      let minor := (← strField j "minor").toList
      let patch := (← strField j "patch").toList
      let extra ← match fieldOpt j "extra" with | none => pure none | some x => do pure (some (← asStr x).toList)
      let tweak ← match fieldOpt j "tweak" with | none => pure 0 | some x => do pure (digitsToNat (← asStr x).toList)
      let v := defaultVersion major minor patch extra
      pure (okJ (Json.mkObj [("version", .str (String.ofList v)),
        ("seq", natJ (seqNum (digitsToNat major) (digitsToNat minor) (digitsToNat patch) tweak))]))
  | "version.seq_pairs" => some do
      let ts ← (← arrField j "tuples").mapM (fun t => do
        match ← (← asArr t).mapM asNat with
        | [a, b, c, d, s] => pure ((a, b, c, d), s)
        | _ => .error "tuple")
      let arr := ts.toArray
      let mut bad : Array Json := #[]
      let mut n := 0
      for i in [0:arr.size] do
        for k in [0:arr.size] do
          n := n + 1
          if lexLtB arr[i]!.1 arr[k]!.1 != decide (arr[i]!.2 < arr[k]!.2) then
            if bad.size < 10 then bad := bad.push (Json.arr #[natJ i, natJ k])
      pure (okJ (Json.mkObj [("pairs", natJ n), ("bad", .arr bad)]))
  | _ => none

end Driver.VersionOps
