import Driver.Util
import Driver.Cache
import Driver.IHexOps
import Driver.ImageOps
import Driver.VersionOps
import Driver.SuitOps
import Driver.SignOps
import Driver.ExtractOps
import Driver.EncryptOps
import Driver.StorageOps
import Driver.ConvertOps
import Driver.TemplateOps
/-! JSON-lines driver: one request object per line on stdin, one response per line on stdout.
`{"op": name, ...}` → `{"ok": ...}` | `{"err": class}` | `{"bad": message}` (malformed request). -/
open Lean Driver

def handlers : List (String → Json → Option (M Json)) := [CacheOps.handle, IHexOps.handle, ImageOps.handle, VersionOps.handle, SuitOps.handle, SignOps.handle, ExtractOps.handle, EncryptOps.handle, StorageOps.handle, ConvertOps.handle, TemplateOps.handle]

def dispatch (j : Json) : Json :=
  match strField j "op" with
  | .error e => Json.mkObj [("bad", .str e)]
  | .ok op =>
    match handlers.findSome? (fun h => h op j) with
    | none => Json.mkObj [("bad", .str s!"unknown op {op}")]
    | some (.ok r) => r
    | some (.error e) => Json.mkObj [("bad", .str e)]

partial def loop (hin hout : IO.FS.Stream) : IO Unit := do
  let line ← hin.getLine
  if line.isEmpty then return ()
  let t := line.trimAscii.toString
  if t.isEmpty then loop hin hout else
  let out := match Json.parse t with
    | .error e => Json.mkObj [("bad", .str s!"json: {e}")]
    | .ok j => dispatch j
  hout.putStrLn out.compress
  hout.flush
  loop hin hout

def main : IO Unit := do
  loop (← IO.getStdin) (← IO.getStdout)
