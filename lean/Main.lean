import SuitVerif
def main : IO Unit := IO.println "ok"
